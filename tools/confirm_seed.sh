#!/bin/bash
# usage: confirm_seed.sh <worktree> <seed dir>  -- confirm a seeded change independently:
# demo passes on the clean tree, fails with the patch; patched tree builds and passes ctest 45/45.
wt=$1; sd=$2
cd $wt || exit 2
git checkout -q -- . ; 
out=$sd/confirm.txt; : > $out
bash $sd/run_demo.sh $wt > $sd/demo_clean.log 2>&1; echo "demo_clean_exit=$?" >> $out
git apply $sd/patch.diff || { echo "apply_failed" >> $out; exit 1; }
bash $sd/run_demo.sh $wt > $sd/demo_patched.log 2>&1; echo "demo_patched_exit=$?" >> $out
cmake -G Ninja -S . -B _build -DCMAKE_BUILD_TYPE=RelWithDebInfo > /dev/null 2>&1
cmake --build _build -- -k 0 -j6 > $sd/build.log 2>&1
ctest --test-dir _build -j6 --timeout 900 > $sd/ctest.log 2>&1
grep -E "tests passed|tests failed" $sd/ctest.log >> $out
git checkout -q -- .
cat $out
