#!/usr/bin/env python3
"""import_seed.py <property> <n> <src dir> <needs text>: copy a confirmed seeded change into /verif/seeded/<id>/"""
import sys, os, shutil, json
pid, n, src, needs = sys.argv[1:5]
dst = '/verif/seeded/%s-%s' % (pid, n)
os.makedirs(dst, exist_ok=True)
for f in ('patch.diff', 'demo.c', 'run_demo.sh', 'notes.txt', 'confirm.txt'):
    if os.path.exists(os.path.join(src, f)):
        shutil.copy(os.path.join(src, f), dst)
conf = open(os.path.join(src, 'confirm.txt')).read() if os.path.exists(os.path.join(src, 'confirm.txt')) else ''
meta = {'property': pid, 'needs_to_manifest': needs,
        'confirmed_by': 'tools/confirm_seed.sh in a scratch worktree: run_demo.sh on the clean tree, on the patched tree, then '
                        'cmake RelWithDebInfo build + ctest on the patched tree',
        'confirm_result': conf.strip().splitlines(), 'written_by': 'independent sub-agent given only the property text',
        'detected_by': None}
json.dump(meta, open(os.path.join(dst, 'meta.json'), 'w'), indent=1)
print(dst)
