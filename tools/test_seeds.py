#!/usr/bin/env python3
"""test_seeds.py [ID-n ...]: apply each seeded change to /repo, run the property's quick check, record the
outcome in seeded/<ID-n>/meta.json (detected_by), undo the change."""
import sys, os, json, subprocess, glob, re
V = '/verif'
seeds = sys.argv[1:] or sorted(os.path.basename(d) for d in glob.glob(V + '/seeded/*'))
for sd in seeds:
    d = os.path.join(V, 'seeded', sd)
    pid = sd.split('-')[0]
    if not os.path.exists(os.path.join(V, 'checks', pid.lower() + '.py')):
        print(sd, 'no check for', pid)
        continue
    assert subprocess.run(['git', '-C', '/repo', 'status', '--porcelain', '--untracked-files=no'], capture_output=True, text=True).stdout.strip() == '', 'repo dirty'
    r = subprocess.run(['git', '-C', '/repo', 'apply', os.path.join(d, 'patch.diff')], capture_output=True, text=True)
    if r.returncode != 0:
        print(sd, 'patch does not apply:', r.stderr.strip()[:200])
        continue
    evf = os.path.join(V, 'evidence', pid + '.json')
    saved = open(evf).read() if os.path.exists(evf) else None
    try:
        p = subprocess.run([V + '/check', pid, '--tier', 'quick'], capture_output=True, text=True, cwd=V)
    finally:
        subprocess.run(['git', '-C', '/repo', 'checkout', '--', '.'])
        if saved is not None:
            open(evf, 'w').write(saved)  # evidence must describe the unchanged tree, not the seeded run
    lines = [l for l in p.stdout.splitlines() if re.match(r'(VIOLATION|UNDECIDED|KNOWN-FINDING|%s )' % pid, l)]
    viol = [l for l in lines if l.startswith('VIOLATION')]
    und = [l for l in lines if l.startswith('UNDECIDED')]
    meta = json.load(open(os.path.join(d, 'meta.json')))
    meta['check_run'] = './check %s --tier quick (patch applied to /repo, undone afterwards)' % pid
    meta['check_exit'] = p.returncode
    meta['detected_by'] = [re.sub(r'replay=\S+ ', '', l)[:260] for l in viol[:4]] if viol else None
    meta['undecided'] = [l[:200] for l in und[:3]] if (und and not viol) else None
    json.dump(meta, open(os.path.join(d, 'meta.json'), 'w'), indent=1)
    print(sd, 'exit', p.returncode, 'DETECTED' if viol else ('undecided' if und else 'MISSED'), (viol or und or [''])[0][:170])
