/* Operand modes of MIR instructions, written from MIR.md by naming rule (prefix F/D/LD = float/
   double/long double operands, compare results and conversions as documented, first operand of a
   branch is a label, "result"/"put into the 1st operand" = output operand).  Independent of the
   insn_descs table in mir.c.  spec_nops(code) = -1 for instructions with a variable operand count. */
#ifndef VP_MIR_MODES_H
#define VP_MIR_MODES_H

#define SM_I MIR_OP_INT
#define SM_F MIR_OP_FLOAT
#define SM_D MIR_OP_DOUBLE
#define SM_LD MIR_OP_LDOUBLE
#define SM_L MIR_OP_LABEL
#define SM_U MIR_OP_UNDEF

typedef struct { int nops; int mode[4]; int out0; } spec_desc_t;

static inline spec_desc_t spec_desc (int c) {
  spec_desc_t r = {-1, {MIR_OP_BOUND, MIR_OP_BOUND, MIR_OP_BOUND, MIR_OP_BOUND}, 0};
#define R2(o, a, b) do { r.nops = 2; r.mode[0] = a; r.mode[1] = b; r.out0 = o; return r; } while (0)
#define R3(o, a, b, cc) do { r.nops = 3; r.mode[0] = a; r.mode[1] = b; r.mode[2] = cc; r.out0 = o; return r; } while (0)
#define R1(o, a) do { r.nops = 1; r.mode[0] = a; r.out0 = o; return r; } while (0)
  switch (c) {
  /* moves */
  case MIR_MOV: R2 (1, SM_I, SM_I);
  case MIR_FMOV: R2 (1, SM_F, SM_F);
  case MIR_DMOV: R2 (1, SM_D, SM_D);
  case MIR_LDMOV: R2 (1, SM_LD, SM_LD);
  /* integer unary */
  case MIR_EXT8: case MIR_EXT16: case MIR_EXT32: case MIR_UEXT8: case MIR_UEXT16: case MIR_UEXT32:
  case MIR_NEG: case MIR_NEGS: R2 (1, SM_I, SM_I);
  /* conversions: X2Y reads X, writes Y */
  case MIR_I2F: case MIR_UI2F: R2 (1, SM_F, SM_I);
  case MIR_I2D: case MIR_UI2D: R2 (1, SM_D, SM_I);
  case MIR_I2LD: case MIR_UI2LD: R2 (1, SM_LD, SM_I);
  case MIR_F2I: R2 (1, SM_I, SM_F);
  case MIR_D2I: R2 (1, SM_I, SM_D);
  case MIR_LD2I: R2 (1, SM_I, SM_LD);
  case MIR_F2D: R2 (1, SM_D, SM_F);
  case MIR_F2LD: R2 (1, SM_LD, SM_F);
  case MIR_D2F: R2 (1, SM_F, SM_D);
  case MIR_D2LD: R2 (1, SM_LD, SM_D);
  case MIR_LD2F: R2 (1, SM_F, SM_LD);
  case MIR_LD2D: R2 (1, SM_D, SM_LD);
  case MIR_FNEG: R2 (1, SM_F, SM_F);
  case MIR_DNEG: R2 (1, SM_D, SM_D);
  case MIR_LDNEG: R2 (1, SM_LD, SM_LD);
  /* address of a variable: the 2nd operand must be a register (of any type) */
  case MIR_ADDR: case MIR_ADDR8: case MIR_ADDR16: case MIR_ADDR32: R2 (1, SM_I, MIR_OP_REG);
  /* integer binary, compares, overflow insns */
  case MIR_ADD: case MIR_ADDS: case MIR_SUB: case MIR_SUBS: case MIR_MUL: case MIR_MULS: case MIR_DIV:
  case MIR_DIVS: case MIR_UDIV: case MIR_UDIVS: case MIR_MOD: case MIR_MODS: case MIR_UMOD: case MIR_UMODS:
  case MIR_AND: case MIR_ANDS: case MIR_OR: case MIR_ORS: case MIR_XOR: case MIR_XORS: case MIR_LSH:
  case MIR_LSHS: case MIR_RSH: case MIR_RSHS: case MIR_URSH: case MIR_URSHS: case MIR_EQ: case MIR_EQS:
  case MIR_NE: case MIR_NES: case MIR_LT: case MIR_LTS: case MIR_ULT: case MIR_ULTS: case MIR_LE: case MIR_LES:
  case MIR_ULE: case MIR_ULES: case MIR_GT: case MIR_GTS: case MIR_UGT: case MIR_UGTS: case MIR_GE:
  case MIR_GES: case MIR_UGE: case MIR_UGES: case MIR_ADDO: case MIR_ADDOS: case MIR_SUBO: case MIR_SUBOS:
  case MIR_MULO: case MIR_MULOS: case MIR_UMULO: case MIR_UMULOS: R3 (1, SM_I, SM_I, SM_I);
  /* FP arithmetic */
  case MIR_FADD: case MIR_FSUB: case MIR_FMUL: case MIR_FDIV: R3 (1, SM_F, SM_F, SM_F);
  case MIR_DADD: case MIR_DSUB: case MIR_DMUL: case MIR_DDIV: R3 (1, SM_D, SM_D, SM_D);
  case MIR_LDADD: case MIR_LDSUB: case MIR_LDMUL: case MIR_LDDIV: R3 (1, SM_LD, SM_LD, SM_LD);
  /* FP compares: integer result */
  case MIR_FEQ: case MIR_FNE: case MIR_FLT: case MIR_FLE: case MIR_FGT: case MIR_FGE: R3 (1, SM_I, SM_F, SM_F);
  case MIR_DEQ: case MIR_DNE: case MIR_DLT: case MIR_DLE: case MIR_DGT: case MIR_DGE: R3 (1, SM_I, SM_D, SM_D);
  case MIR_LDEQ: case MIR_LDNE: case MIR_LDLT: case MIR_LDLE: case MIR_LDGT: case MIR_LDGE:
    R3 (1, SM_I, SM_LD, SM_LD);
  /* branches */
  case MIR_JMP: case MIR_BO: case MIR_UBO: case MIR_BNO: case MIR_UBNO: R1 (0, SM_L);
  case MIR_BT: case MIR_BTS: case MIR_BF: case MIR_BFS: R2 (0, SM_L, SM_I);
  case MIR_BEQ: case MIR_BEQS: case MIR_BNE: case MIR_BNES: case MIR_BLT: case MIR_BLTS: case MIR_UBLT:
  case MIR_UBLTS: case MIR_BLE: case MIR_BLES: case MIR_UBLE: case MIR_UBLES: case MIR_BGT: case MIR_BGTS:
  case MIR_UBGT: case MIR_UBGTS: case MIR_BGE: case MIR_BGES: case MIR_UBGE: case MIR_UBGES:
    R3 (0, SM_L, SM_I, SM_I);
  case MIR_FBEQ: case MIR_FBNE: case MIR_FBLT: case MIR_FBLE: case MIR_FBGT: case MIR_FBGE:
    R3 (0, SM_L, SM_F, SM_F);
  case MIR_DBEQ: case MIR_DBNE: case MIR_DBLT: case MIR_DBLE: case MIR_DBGT: case MIR_DBGE:
    R3 (0, SM_L, SM_D, SM_D);
  case MIR_LDBEQ: case MIR_LDBNE: case MIR_LDBLT: case MIR_LDBLE: case MIR_LDBGT: case MIR_LDBGE:
    R3 (0, SM_L, SM_LD, SM_LD);
  /* "takes address of a label given as the 2nd operand and puts it into ... the first operand" */
  case MIR_LADDR: R2 (1, SM_I, SM_L);
  case MIR_JMPI: R1 (0, SM_I);
  case MIR_JRET: R1 (0, SM_I);
  /* "assign the memory address to the 1st operand" */
  case MIR_ALLOCA: R2 (1, SM_I, SM_I);
  case MIR_BSTART: R1 (1, SM_I);
  case MIR_BEND: R1 (0, SM_I);
  case MIR_VA_ARG: R3 (1, SM_I, SM_I, SM_U);
  case MIR_VA_BLOCK_ARG: r.nops = 4; r.mode[0] = r.mode[1] = r.mode[2] = r.mode[3] = SM_I; return r;
  case MIR_VA_START: case MIR_VA_END: R1 (0, SM_I);
  case MIR_LABEL: r.nops = 0; return r;
  case MIR_PRSET: R2 (0, SM_U, SM_I);
  case MIR_PRBEQ: case MIR_PRBNE: R3 (0, SM_L, SM_U, SM_I);
  case MIR_INVALID_INSN: r.nops = 0; return r;
  /* variable operand count: CALL INLINE JCALL SWITCH RET UNSPEC USE PHI */
  default: return r;
  }
}
/* MIR.md memory/data types: I8..U64, F, D, LD, P are the scalar types; BLK.. only for call arguments */
static inline int spec_scalar_type_p (int t) {
  return t == MIR_T_I8 || t == MIR_T_U8 || t == MIR_T_I16 || t == MIR_T_U16 || t == MIR_T_I32 || t == MIR_T_U32
         || t == MIR_T_I64 || t == MIR_T_U64 || t == MIR_T_F || t == MIR_T_D || t == MIR_T_LD || t == MIR_T_P;
}
#endif
