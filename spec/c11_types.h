/* C11 6.3.1.1 (integer promotions) and 6.3.1.8 (usual arithmetic conversions) on the LP64 type set,
   expressed on the observable attributes (floating kind, width in bits, signedness). */
#ifndef VP_C11_TYPES_H
#define VP_C11_TYPES_H
typedef struct { int fkind; /* 0 integer, 1 float, 2 double, 3 long double */ int width; int sgn; int rank; } c11_attr_t;
/* ranks: bool 0, char 1, short 2, int 3, long 4, long long 5 */
static inline c11_attr_t c11_attr (int tp) {
  c11_attr_t a = {0, 0, 0, 0};
  switch (tp) {
  case TP_BOOL: a.width = 8; a.sgn = 0; a.rank = 0; break;
  case TP_CHAR: case TP_SCHAR: a.width = 8; a.sgn = 1; a.rank = 1; break; /* plain char is signed on x86-64 */
  case TP_UCHAR: a.width = 8; a.rank = 1; break;
  case TP_SHORT: a.width = 16; a.sgn = 1; a.rank = 2; break;
  case TP_USHORT: a.width = 16; a.rank = 2; break;
  case TP_INT: a.width = 32; a.sgn = 1; a.rank = 3; break;
  case TP_UINT: a.width = 32; a.rank = 3; break;
  case TP_LONG: a.width = 64; a.sgn = 1; a.rank = 4; break;
  case TP_ULONG: a.width = 64; a.rank = 4; break;
  case TP_LLONG: a.width = 64; a.sgn = 1; a.rank = 5; break;
  case TP_ULLONG: a.width = 64; a.rank = 5; break;
  case TP_FLOAT: a.fkind = 1; a.width = 32; break;
  case TP_DOUBLE: a.fkind = 2; a.width = 64; break;
  default: a.fkind = 3; a.width = 128; break;
  }
  return a;
}
static inline c11_attr_t c11_promote (c11_attr_t a) {
  if (a.fkind == 0 && a.rank < 3) { /* int can represent every value of the narrower types */
    a.width = 32; a.sgn = 1; a.rank = 3;
  }
  return a;
}
static inline c11_attr_t c11_usual (c11_attr_t a, c11_attr_t b) {
  if (a.fkind || b.fkind) return a.fkind >= b.fkind ? a : b;
  a = c11_promote (a); b = c11_promote (b);
  if (a.sgn == b.sgn) return a.rank >= b.rank ? a : b;
  c11_attr_t u = a.sgn ? b : a, s = a.sgn ? a : b;
  if (u.rank >= s.rank) return u;
  if (s.width > u.width) return s; /* the signed type can represent all values of the unsigned one */
  s.sgn = 0; /* the unsigned type corresponding to the signed operand's type */
  return s;
}
#endif
