/* System V x86-64 psABI: (a) struct member / bit-field placement (section 3.1.2: a bit-field must be
   contained in a storage unit of its declared type; members are placed at the lowest available
   offset with the alignment of their type), (b) the eightbyte class merge (section 3.2.3 step 4). */
#ifndef VP_SYSV_H
#define VP_SYSV_H
#include <stdint.h>
typedef struct { uint64_t pos_bits; } sysv_layout_t;
/* place one member of scalar type (size == align == S bytes for bit-fields; regular members have
   size S, alignment A); width < 0: regular member.  Returns the absolute bit position of the member. */
static inline uint64_t sysv_place (sysv_layout_t *st, uint64_t S, uint64_t A, int width) {
  uint64_t p = st->pos_bits;
  if (width < 0) {
    uint64_t off = (p + 7) / 8;
    off = (off + A - 1) / A * A;
    st->pos_bits = (off + S) * 8;
    return off * 8;
  }
  if (width == 0) { /* zero-width: the next member starts in a new storage unit of this type */
    st->pos_bits = (p + 8 * A - 1) / (8 * A) * (8 * A);
    return st->pos_bits;
  }
  if (p / (8 * S) != (p + (uint64_t) width - 1) / (8 * S)) p = (p + 8 * A - 1) / (8 * A) * (8 * A);
  st->pos_bits = p + (uint64_t) width;
  return p;
}
/* class merge, classes coded as c2mir codes them: INTEGER = MIR_T_I64 (or MIR_T_I32), SSE = MIR_T_D (or
   MIR_T_F), X87 = MIR_T_LD, MEMORY = MIR_T_UNDEF, plus NO_CLASS and X87UP_CLASS */
#define SYSV_INT_P(t) ((t) == MIR_T_I64 || (t) == MIR_T_I32)
#define SYSV_SSE_P(t) ((t) == MIR_T_D || (t) == MIR_T_F)
#endif
