/* MIR instruction semantics, written from MIR.md (sections "MIR integer insns", "MIR integer
   overflow insns", "MIR floating point insns", "MIR branch insns") and C11 for the operator
   meaning MIR.md refers to.  Independent of mir-interp.c / mir-gen.c.  Used both by the CBMC
   harnesses and (compiled natively) by the replay drivers and the spec self-test.

   Conventions: integer values travel as uint64_t (two's complement).  An S-suffixed insn works on
   the low 32 bits and only the low 32 bits of its result are specified (w32 = 1).  `defined` is 0
   where MIR.md (through C) leaves the result undefined: division by zero, INT_MIN / -1, shift
   count >= width. */
#ifndef VP_MIR_SEM_H
#define VP_MIR_SEM_H
#include <stdint.h>

typedef struct { uint64_t v; int defined; int w32; } sem_int_t;

static inline uint64_t sem_sx32 (uint64_t x) { return (uint64_t) (int64_t) (int32_t) (uint32_t) x; }

/* two-operand integer insns (dst, src) */
static inline sem_int_t sem_int2 (int code, uint64_t a) {
  sem_int_t r = {0, 1, 0};
  switch (code) {
  case MIR_MOV: r.v = a; break;
  case MIR_EXT8: r.v = (a & 0x80) ? (a | ~(uint64_t) 0xff) : (a & 0xff); break;
  case MIR_UEXT8: r.v = a & 0xff; break;
  case MIR_EXT16: r.v = (a & 0x8000) ? (a | ~(uint64_t) 0xffff) : (a & 0xffff); break;
  case MIR_UEXT16: r.v = a & 0xffff; break;
  case MIR_EXT32: r.v = (a & 0x80000000u) ? (a | ~(uint64_t) 0xffffffffu) : (a & 0xffffffffu); break;
  case MIR_UEXT32: r.v = a & 0xffffffffu; break;
  case MIR_NEG: r.v = (uint64_t) 0 - a; break;
  case MIR_NEGS: r.v = (uint32_t) ((uint32_t) 0 - (uint32_t) a); r.w32 = 1; break;
  default: r.defined = 0;
  }
  return r;
}

/* three-operand integer arithmetic / logic / shift / compare insns (dst, a, b) */
static inline sem_int_t sem_int3 (int code, uint64_t a, uint64_t b) {
  sem_int_t r = {0, 1, 0};
  uint32_t a32 = (uint32_t) a, b32 = (uint32_t) b;
  int64_t sa = (int64_t) a, sb = (int64_t) b;
  int32_t sa32 = (int32_t) a32, sb32 = (int32_t) b32;
  switch (code) {
  case MIR_ADD: case MIR_ADDO: r.v = a + b; break;
  case MIR_SUB: case MIR_SUBO: r.v = a - b; break;
  case MIR_MUL: case MIR_MULO: case MIR_UMULO: r.v = a * b; break;
  case MIR_ADDS: case MIR_ADDOS: r.v = (uint32_t) (a32 + b32); r.w32 = 1; break;
  case MIR_SUBS: case MIR_SUBOS: r.v = (uint32_t) (a32 - b32); r.w32 = 1; break;
  case MIR_MULS: case MIR_MULOS: case MIR_UMULOS: r.v = (uint32_t) (a32 * b32); r.w32 = 1; break;
  case MIR_DIV:
    if (sb == 0 || (sa == INT64_MIN && sb == -1)) r.defined = 0; else r.v = (uint64_t) (sa / sb);
    break;
  case MIR_MOD:
    if (sb == 0 || (sa == INT64_MIN && sb == -1)) r.defined = 0; else r.v = (uint64_t) (sa % sb);
    break;
  case MIR_UDIV: if (b == 0) r.defined = 0; else r.v = a / b; break;
  case MIR_UMOD: if (b == 0) r.defined = 0; else r.v = a % b; break;
  case MIR_DIVS:
    r.w32 = 1;
    if (sb32 == 0 || (sa32 == INT32_MIN && sb32 == -1)) r.defined = 0; else r.v = (uint32_t) (sa32 / sb32);
    break;
  case MIR_MODS:
    r.w32 = 1;
    if (sb32 == 0 || (sa32 == INT32_MIN && sb32 == -1)) r.defined = 0; else r.v = (uint32_t) (sa32 % sb32);
    break;
  case MIR_UDIVS: r.w32 = 1; if (b32 == 0) r.defined = 0; else r.v = a32 / b32; break;
  case MIR_UMODS: r.w32 = 1; if (b32 == 0) r.defined = 0; else r.v = a32 % b32; break;
  case MIR_AND: r.v = a & b; break;
  case MIR_OR: r.v = a | b; break;
  case MIR_XOR: r.v = a ^ b; break;
  case MIR_ANDS: r.v = a32 & b32; r.w32 = 1; break;
  case MIR_ORS: r.v = a32 | b32; r.w32 = 1; break;
  case MIR_XORS: r.v = a32 ^ b32; r.w32 = 1; break;
  case MIR_LSH: if (b >= 64) r.defined = 0; else r.v = a << b; break;
  case MIR_URSH: if (b >= 64) r.defined = 0; else r.v = a >> b; break;
  case MIR_RSH: /* sign-propagating */
    if (b >= 64) r.defined = 0;
    else r.v = (a >> b) | ((a >> 63) && b != 0 ? ~(uint64_t) 0 << (64 - b) : 0);
    break;
  /* the shift count of a 32-bit shift is the low 32 bits of the third operand */
  case MIR_LSHS: r.w32 = 1; if (b32 >= 32) r.defined = 0; else r.v = (uint32_t) (a32 << b32); break;
  case MIR_URSHS: r.w32 = 1; if (b32 >= 32) r.defined = 0; else r.v = a32 >> b32; break;
  case MIR_RSHS:
    r.w32 = 1;
    if (b32 >= 32) r.defined = 0;
    else r.v = (uint32_t) ((a32 >> b32) | ((a32 >> 31) && b32 != 0 ? ~(uint32_t) 0 << (32 - b32) : 0));
    break;
  case MIR_EQ: r.v = a == b; break;
  case MIR_NE: r.v = a != b; break;
  case MIR_LT: r.v = sa < sb; break;
  case MIR_LE: r.v = sa <= sb; break;
  case MIR_GT: r.v = sa > sb; break;
  case MIR_GE: r.v = sa >= sb; break;
  case MIR_ULT: r.v = a < b; break;
  case MIR_ULE: r.v = a <= b; break;
  case MIR_UGT: r.v = a > b; break;
  case MIR_UGE: r.v = a >= b; break;
  case MIR_EQS: r.v = a32 == b32; r.w32 = 1; break;
  case MIR_NES: r.v = a32 != b32; r.w32 = 1; break;
  case MIR_LTS: r.v = sa32 < sb32; r.w32 = 1; break;
  case MIR_LES: r.v = sa32 <= sb32; r.w32 = 1; break;
  case MIR_GTS: r.v = sa32 > sb32; r.w32 = 1; break;
  case MIR_GES: r.v = sa32 >= sb32; r.w32 = 1; break;
  case MIR_ULTS: r.v = a32 < b32; r.w32 = 1; break;
  case MIR_ULES: r.v = a32 <= b32; r.w32 = 1; break;
  case MIR_UGTS: r.v = a32 > b32; r.w32 = 1; break;
  case MIR_UGES: r.v = a32 >= b32; r.w32 = 1; break;
  default: r.defined = 0;
  }
  return r;
}

/* does `got` agree with the specification (only specified bits compared) */
static inline int sem_agree (sem_int_t s, uint64_t got) {
  return !s.defined || (s.w32 ? (uint32_t) got == (uint32_t) s.v : got == s.v);
}

/* compare-and-branch insns: is the branch taken */
static inline int sem_branch (int code, uint64_t a, uint64_t b) {
  uint32_t a32 = (uint32_t) a, b32 = (uint32_t) b;
  int64_t sa = (int64_t) a, sb = (int64_t) b;
  int32_t sa32 = (int32_t) a32, sb32 = (int32_t) b32;
  switch (code) {
  case MIR_BT: return a != 0;
  case MIR_BF: return a == 0;
  case MIR_BTS: return a32 != 0;
  case MIR_BFS: return a32 == 0;
  case MIR_BEQ: return a == b;
  case MIR_BNE: return a != b;
  case MIR_BLT: return sa < sb;
  case MIR_BLE: return sa <= sb;
  case MIR_BGT: return sa > sb;
  case MIR_BGE: return sa >= sb;
  case MIR_UBLT: return a < b;
  case MIR_UBLE: return a <= b;
  case MIR_UBGT: return a > b;
  case MIR_UBGE: return a >= b;
  case MIR_BEQS: return a32 == b32;
  case MIR_BNES: return a32 != b32;
  case MIR_BLTS: return sa32 < sb32;
  case MIR_BLES: return sa32 <= sb32;
  case MIR_BGTS: return sa32 > sb32;
  case MIR_BGES: return sa32 >= sb32;
  case MIR_UBLTS: return a32 < b32;
  case MIR_UBLES: return a32 <= b32;
  case MIR_UBGTS: return a32 > b32;
  case MIR_UBGES: return a32 >= b32;
  default: return -1;
  }
}

/* Overflow flags of the *O insns.  Signed overflow: the mathematical result of the w-bit signed
   operation is not representable in w bits.  Unsigned overflow: carry out of the w-bit addition,
   borrow of the subtraction, high half of the product non-zero.  Written in the division form of
   CERT C INT32-C / INT30-C (no wider type needed); spec/selftest.c cross-checks this form against
   __int128 arithmetic natively. */
typedef struct { int s_ovf; int u_ovf; int s_def; int u_def; } sem_ovf_t;
static inline sem_ovf_t sem_ovf (int code, uint64_t a, uint64_t b) {
  sem_ovf_t r = {0, 0, 1, 1};
  int64_t sa = (int64_t) a, sb = (int64_t) b;
  uint32_t a32 = (uint32_t) a, b32 = (uint32_t) b;
  int32_t sa32 = (int32_t) a32, sb32 = (int32_t) b32;
  switch (code) {
  case MIR_ADDO:
    r.u_ovf = a + b < a;
    r.s_ovf = (sb > 0 && sa > INT64_MAX - sb) || (sb < 0 && sa < INT64_MIN - sb);
    break;
  case MIR_SUBO:
    r.u_ovf = a < b;
    r.s_ovf = (sb > 0 && sa < INT64_MIN + sb) || (sb < 0 && sa > INT64_MAX + sb);
    break;
  case MIR_ADDOS:
    r.u_ovf = (uint32_t) (a32 + b32) < a32;
    r.s_ovf = (sb32 > 0 && sa32 > INT32_MAX - sb32) || (sb32 < 0 && sa32 < INT32_MIN - sb32);
    break;
  case MIR_SUBOS:
    r.u_ovf = a32 < b32;
    r.s_ovf = (sb32 > 0 && sa32 < INT32_MIN + sb32) || (sb32 < 0 && sa32 > INT32_MAX + sb32);
    break;
  case MIR_MULO: /* INT32-C */
    r.u_def = 0;
    if (sa > 0) {
      if (sb > 0) r.s_ovf = sa > INT64_MAX / sb;
      else r.s_ovf = sb < INT64_MIN / sa;
    } else {
      if (sb > 0) r.s_ovf = sa < INT64_MIN / sb;
      else r.s_ovf = sa != 0 && sb < INT64_MAX / sa;
    }
    break;
  case MIR_MULOS:
    r.u_def = 0;
    if (sa32 > 0) {
      if (sb32 > 0) r.s_ovf = sa32 > INT32_MAX / sb32;
      else r.s_ovf = sb32 < INT32_MIN / sa32;
    } else {
      if (sb32 > 0) r.s_ovf = sa32 < INT32_MIN / sb32;
      else r.s_ovf = sa32 != 0 && sb32 < INT32_MAX / sa32;
    }
    break;
  case MIR_UMULO: r.s_def = 0; r.u_ovf = a != 0 && b > UINT64_MAX / a; break;
  case MIR_UMULOS: r.s_def = 0; r.u_ovf = a32 != 0 && b32 > UINT32_MAX / a32; break;
  default: r.s_def = r.u_def = 0;
  }
  return r;
}

/* floating point: MIR.md gives the C meaning; comparisons are C comparisons (false on NaN except !=) */
#define SEM_FCMP(T, NAME)                                                                      \
  static inline int NAME (int rel, T a, T b) {                                                 \
    switch (rel) {                                                                             \
    case 0: return a == b;                                                                     \
    case 1: return a != b;                                                                     \
    case 2: return a < b;                                                                      \
    case 3: return a <= b;                                                                     \
    case 4: return a > b;                                                                      \
    default: return a >= b;                                                                    \
    }                                                                                          \
  }
SEM_FCMP (float, sem_fcmp)
SEM_FCMP (double, sem_dcmp)
SEM_FCMP (long double, sem_ldcmp)
/* relation index of a FP compare / branch opcode: 0 EQ 1 NE 2 LT 3 LE 4 GT 5 GE; -1 otherwise */
static inline int sem_fp_rel (int code) {
  switch (code) {
  case MIR_FEQ: case MIR_DEQ: case MIR_LDEQ: case MIR_FBEQ: case MIR_DBEQ: case MIR_LDBEQ: return 0;
  case MIR_FNE: case MIR_DNE: case MIR_LDNE: case MIR_FBNE: case MIR_DBNE: case MIR_LDBNE: return 1;
  case MIR_FLT: case MIR_DLT: case MIR_LDLT: case MIR_FBLT: case MIR_DBLT: case MIR_LDBLT: return 2;
  case MIR_FLE: case MIR_DLE: case MIR_LDLE: case MIR_FBLE: case MIR_DBLE: case MIR_LDBLE: return 3;
  case MIR_FGT: case MIR_DGT: case MIR_LDGT: case MIR_FBGT: case MIR_DBGT: case MIR_LDBGT: return 4;
  case MIR_FGE: case MIR_DGE: case MIR_LDGE: case MIR_FBGE: case MIR_DBGE: case MIR_LDBGE: return 5;
  default: return -1;
  }
}
/* operand kind of a FP opcode: 'f', 'd', 'l' */
static inline int sem_fp_kind (int code) {
  switch (code) {
  case MIR_FEQ: case MIR_FNE: case MIR_FLT: case MIR_FLE: case MIR_FGT: case MIR_FGE:
  case MIR_FBEQ: case MIR_FBNE: case MIR_FBLT: case MIR_FBLE: case MIR_FBGT: case MIR_FBGE:
  case MIR_FADD: case MIR_FSUB: case MIR_FMUL: case MIR_FDIV: case MIR_FNEG: case MIR_FMOV: return 'f';
  case MIR_DEQ: case MIR_DNE: case MIR_DLT: case MIR_DLE: case MIR_DGT: case MIR_DGE:
  case MIR_DBEQ: case MIR_DBNE: case MIR_DBLT: case MIR_DBLE: case MIR_DBGT: case MIR_DBGE:
  case MIR_DADD: case MIR_DSUB: case MIR_DMUL: case MIR_DDIV: case MIR_DNEG: case MIR_DMOV: return 'd';
  default: return 'l';
  }
}
#define SEM_FARITH(T, NAME, ADD, SUB, MUL, DIV)                                                \
  static inline T NAME (int code, T a, T b) {                                                  \
    return code == ADD ? a + b : code == SUB ? a - b : code == MUL ? a * b : a / b;            \
  }
SEM_FARITH (float, sem_farith, MIR_FADD, MIR_FSUB, MIR_FMUL, MIR_FDIV)
SEM_FARITH (double, sem_darith, MIR_DADD, MIR_DSUB, MIR_DMUL, MIR_DDIV)
SEM_FARITH (long double, sem_ldarith, MIR_LDADD, MIR_LDSUB, MIR_LDMUL, MIR_LDDIV)

/* memory: value of a load of MIR type t from little-endian bytes, as the 64-bit register value */
static inline uint64_t sem_load_int (int t, const unsigned char *p) {
  uint64_t v = 0;
  int n = (t == MIR_T_I8 || t == MIR_T_U8) ? 1 : (t == MIR_T_I16 || t == MIR_T_U16) ? 2
          : (t == MIR_T_I32 || t == MIR_T_U32) ? 4 : 8;
  for (int k = 0; k < n; k++) v |= (uint64_t) p[k] << (8 * k);
  if (t == MIR_T_I8 && (v & 0x80)) v |= ~(uint64_t) 0xff;
  if (t == MIR_T_I16 && (v & 0x8000)) v |= ~(uint64_t) 0xffff;
  if (t == MIR_T_I32 && (v & 0x80000000u)) v |= ~(uint64_t) 0xffffffffu;
  return v;
}
static inline int sem_type_size (int t) {
  return (t == MIR_T_I8 || t == MIR_T_U8) ? 1 : (t == MIR_T_I16 || t == MIR_T_U16) ? 2
         : (t == MIR_T_I32 || t == MIR_T_U32 || t == MIR_T_F) ? 4 : t == MIR_T_LD ? 16 : 8;
}
#endif
