/* C11 6.10.1p4 / 6.6: evaluation of #if integer constant expressions.  All signed integer types act
   as intmax_t, all unsigned ones as uintmax_t.  Written from the standard text:
   - unary + - ~ : integer promotions only -> the operand's signedness is kept;
   - !, relational, equality, &&, || : result has type int (signed), value 0 or 1;
   - * / % + - & ^ | : usual arithmetic conversions, result in the common type;
   - << >> : integer promotions on each operand separately, result has the LEFT operand's type;
   - ?: : usual arithmetic conversions between the 2nd and 3rd operand give the result type. */
#ifndef VP_PP_EVAL_H
#define VP_PP_EVAL_H
#include <stdint.h>
typedef struct { int uns; uint64_t v; int defined; } pp_val_t;
enum pp_op { PP_NOT, PP_BITNOT, PP_PLUS, PP_NEG, PP_MUL, PP_DIV, PP_MOD, PP_ADD, PP_SUB, PP_AND, PP_XOR, PP_OR,
             PP_LSH, PP_RSH, PP_EQ, PP_NE, PP_LT, PP_LE, PP_GT, PP_GE, PP_ANDAND, PP_OROR, PP_COND };
static inline pp_val_t pp_eval (int op, pp_val_t a, pp_val_t b, pp_val_t c) {
  pp_val_t r = {0, 0, 1};
  int u = a.uns || b.uns; /* usual arithmetic conversions */
  int64_t sa = (int64_t) a.v, sb = (int64_t) b.v;
  switch (op) {
  case PP_NOT: r.v = a.v == 0; break;
  case PP_BITNOT: r.uns = a.uns; r.v = ~a.v; break;
  case PP_PLUS: r.uns = a.uns; r.v = a.v; break;
  case PP_NEG: r.uns = a.uns; r.v = (uint64_t) 0 - a.v; if (!a.uns && sa == INT64_MIN) r.defined = 0; break;
  case PP_MUL: r.uns = u; r.v = a.v * b.v;
    if (!u && sa != 0 && ((sa == -1 && sb == INT64_MIN) || (sb == -1 && sa == INT64_MIN) || (int64_t) r.v / sa != sb)) r.defined = 0;
    break;
  case PP_DIV: r.uns = u;
    if (b.v == 0 || (!u && sa == INT64_MIN && sb == -1)) r.defined = 0;
    else r.v = u ? a.v / b.v : (uint64_t) (sa / sb);
    break;
  case PP_MOD: r.uns = u;
    if (b.v == 0 || (!u && sa == INT64_MIN && sb == -1)) r.defined = 0;
    else r.v = u ? a.v % b.v : (uint64_t) (sa % sb);
    break;
  case PP_ADD: r.uns = u; r.v = a.v + b.v;
    if (!u && ((sb > 0 && sa > INT64_MAX - sb) || (sb < 0 && sa < INT64_MIN - sb))) r.defined = 0;
    break;
  case PP_SUB: r.uns = u; r.v = a.v - b.v;
    if (!u && ((sb > 0 && sa < INT64_MIN + sb) || (sb < 0 && sa > INT64_MAX + sb))) r.defined = 0;
    break;
  case PP_AND: r.uns = u; r.v = a.v & b.v; break;
  case PP_XOR: r.uns = u; r.v = a.v ^ b.v; break;
  case PP_OR: r.uns = u; r.v = a.v | b.v; break;
  case PP_LSH: r.uns = a.uns;
    if (b.v >= 64 || (!b.uns && sb < 0) || (!a.uns && (sa < 0 || (b.v > 0 && (a.v >> (63 - b.v)) != 0)))) r.defined = 0;
    else r.v = a.v << b.v;
    break;
  case PP_RSH: r.uns = a.uns;
    if (b.v >= 64 || (!b.uns && sb < 0)) r.defined = 0;
    else if (a.uns || sa >= 0) r.v = a.v >> b.v;
    else r.v = (a.v >> b.v) | (b.v ? ~(uint64_t) 0 << (64 - b.v) : 0); /* implementation-defined: arithmetic, as gcc */
    break;
  case PP_EQ: r.v = a.v == b.v; break;
  case PP_NE: r.v = a.v != b.v; break;
  case PP_LT: r.v = u ? a.v < b.v : sa < sb; break;
  case PP_LE: r.v = u ? a.v <= b.v : sa <= sb; break;
  case PP_GT: r.v = u ? a.v > b.v : sa > sb; break;
  case PP_GE: r.v = u ? a.v >= b.v : sa >= sb; break;
  case PP_ANDAND: r.v = a.v != 0 && b.v != 0; break;
  case PP_OROR: r.v = a.v != 0 || b.v != 0; break;
  case PP_COND: r.uns = b.uns || c.uns; r.v = a.v != 0 ? b.v : c.v; break;
  default: r.defined = 0;
  }
  return r;
}
#endif
