/* first call through the interpreter with > 64 arguments: call_arg_descs is not expanded when call_res_args is */
#include <stdio.h>
#include <string.h>
#include "mir.h"
#define N 70
static long sum70 (long a0, ...) { return a0; }
int main (void) {
  MIR_context_t ctx = MIR_init ();
  static char text[20000]; char *p = text;
  p += sprintf (p, "m: module\np: proto i64");
  for (int i = 0; i < N; i++) p += sprintf (p, ", i64:a%d", i);
  p += sprintf (p, "\nimport f\nmain: func i64\nlocal i64:r\ncall p, f, r");
  for (int i = 0; i < N; i++) p += sprintf (p, ", %d", i + 1);
  p += sprintf (p, "\nret r\nendfunc\nendmodule\n");
  MIR_scan_string (ctx, text);
  MIR_module_t m = DLIST_TAIL (MIR_module_t, *MIR_get_module_list (ctx));
  MIR_item_t fi = DLIST_TAIL (MIR_item_t, m->items);
  MIR_load_module (ctx, m); MIR_load_external (ctx, "f", (void *) sum70);
  MIR_link (ctx, MIR_set_interp_interface, NULL);
  MIR_val_t v; MIR_interp (ctx, fi, &v, 0);
  printf ("r=%ld\n", (long) v.i);
  MIR_finish (ctx);
  return v.i == 1 ? 0 : 1;
}
