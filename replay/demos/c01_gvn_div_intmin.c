/* a well-defined program (the 32-bit division is never executed for flag == 0) crashes the optimizer:
   GVN folds `divs r, r, b` with b = 2^32 because b != 0 as a 64-bit value, then divides by (int32_t) b == 0 */
#include <stdio.h>
#include <stdint.h>
#include "mir.h"
#include "mir-gen.h"
static const char *prog = "m: module\nexport f\nf: func i64, i64:flag\nlocal i64:b, i64:r\nmov r, -9223372036854775808\nmov b, -1\nbf skip, flag\ndiv r, r, b\nskip:\nret r\nendfunc\nendmodule\n";
int main (int argc, char **argv) {
  MIR_context_t ctx = MIR_init ();
  MIR_scan_string (ctx, prog);
  MIR_module_t m = DLIST_TAIL (MIR_module_t, *MIR_get_module_list (ctx));
  MIR_item_t fi = NULL;
  for (MIR_item_t it = DLIST_HEAD (MIR_item_t, m->items); it != NULL; it = DLIST_NEXT (MIR_item_t, it)) if (it->item_type == MIR_func_item) fi = it;
  MIR_load_module (ctx, m);
  MIR_val_t v, arg; arg.i = 0;
  v.i = INT64_MIN; /* what the interpreter returns for f(0): the division is skipped */
  MIR_gen_init (ctx);
  MIR_gen_set_optimize_level (ctx, argc > 1 ? atoi (argv[1]) : 2);
  MIR_link (ctx, MIR_set_gen_interface, NULL);
  long (*f) (long) = MIR_gen (ctx, fi);
  long r = f (0);
  printf ("OBSERVED: gen: %ld\n", r);
  MIR_gen_finish (ctx); MIR_finish (ctx);
  return r == v.i ? 0 : 1;
}
