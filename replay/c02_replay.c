/* Native replay for C02 counterexamples: runs the REAL interpreter eval() (threaded dispatch, as shipped)
   of /repo on one instruction with the concrete operands CBMC found and compares with spec/mir_sem.h.
   usage: c02_replay <kind:int3|int2|branch|ovf> <opcode name> <branch name or -> <d> <s1> <s2> <a> <b>
   exit 1 = mismatch reproduced natively, 0 = agrees with the specification. */
#include "mir.c"
#include "spec/mir_sem.h"
#include <inttypes.h>
static int name2code (MIR_context_t ctx, const char *n) {
  for (int c = 0; c < MIR_INSN_BOUND; c++)
    if (strcasecmp (MIR_insn_name (ctx, c), n) == 0) return c;
  return -1;
}
int main (int argc, char **argv) {
  if (argc < 9) return 2;
  MIR_context_t ctx = MIR_init ();
  struct interp_ctx *interp_ctx = ctx->interp_ctx;
  const char *kind = argv[1];
  int code = name2code (ctx, argv[2]), br = name2code (ctx, argv[3]);
  int d = atoi (argv[4]), s1 = atoi (argv[5]), s2 = atoi (argv[6]);
  uint64_t a = strtoull (argv[7], NULL, 0), b = strtoull (argv[8], NULL, 0);
  if (code < 0) { printf ("unknown opcode %s\n", argv[2]); return 2; }
  MIR_val_t cells[40], bpstore[10], *bp = bpstore + 2, res[2], *C = cells + 1;
  memset (cells, 0, sizeof (cells)); memset (bpstore, 0, sizeof (bpstore)); memset (res, 0, sizeof (res));
  func_desc_t fd = (func_desc_t) &cells[0];
  if ((char *) fd->code != (char *) &cells[1]) return 2;
  bp[s1].u = a; bp[s2].u = b;
  int k = 0;
#define IC(c) get_icode (interp_ctx, &C[k++], c)
#define I(v) (C[k++].i = (v))
  int tail_at;
  if (strcmp (kind, "int3") == 0) { IC (code); I (d); I (s1); I (s2); IC (MIR_RET); I (1); I (d); }
  else if (strcmp (kind, "int2") == 0) { IC (code); I (d); I (s1); IC (MIR_RET); I (1); I (d); }
  else {
    if (strcmp (kind, "branch") == 0) {
      int two = code == MIR_BT || code == MIR_BF || code == MIR_BTS || code == MIR_BFS;
      IC (code); I ((two ? 3 : 4) + 7); I (s1); if (!two) I (s2);
    } else { IC (code); I (3); I (s1); I (s2); IC (br); I (6 + 7); }
    tail_at = k;
    IC (IC_MOVI); I (5); I (0); IC (MIR_RET); I (2); I (5); I (3);
    IC (IC_MOVI); I (5); I (1); IC (MIR_RET); I (2); I (5); I (3);
    (void) tail_at;
  }
  eval (ctx, fd, bp, res);
  int bad = 0;
  if (strcmp (kind, "int3") == 0) { sem_int_t s = sem_int3 (code, a, b); bad = !sem_agree (s, res[0].u);
    printf ("%s a=%#" PRIx64 " b=%#" PRIx64 ": interpreter %#" PRIx64 ", MIR.md %#" PRIx64 "%s\n", argv[2], a, b, res[0].u, s.v, s.defined ? "" : " (undefined)"); }
  else if (strcmp (kind, "int2") == 0) { sem_int_t s = sem_int2 (code, a); bad = !sem_agree (s, res[0].u);
    printf ("%s a=%#" PRIx64 ": interpreter %#" PRIx64 ", MIR.md %#" PRIx64 "\n", argv[2], a, res[0].u, s.v); }
  else if (strcmp (kind, "branch") == 0) { int t = sem_branch (code, a, b); bad = res[0].i != t;
    printf ("%s a=%#" PRIx64 " b=%#" PRIx64 ": interpreter %s, MIR.md %s\n", argv[2], a, b, res[0].i ? "taken" : "not taken", t ? "taken" : "not taken"); }
  else { sem_ovf_t o = sem_ovf (code, a, b); int uns = br == MIR_UBO || br == MIR_UBNO, flag = uns ? o.u_ovf : o.s_ovf;
    int expect = (br == MIR_BO || br == MIR_UBO) ? flag : !flag; bad = res[0].i != expect || !sem_agree (sem_int3 (code, a, b), res[1].u);
    printf ("%s;%s a=%#" PRIx64 " b=%#" PRIx64 ": interpreter %s, documented flag says %s\n", argv[2], argv[3], a, b, res[0].i ? "taken" : "not taken", expect ? "taken" : "not taken"); }
  printf (bad ? "CONFIRMED: the real interpreter disagrees with MIR.md on this input\n" : "NOT-REPRODUCED\n");
  return bad;
}
