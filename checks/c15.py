"""C15 - ill-formed IR rejected through the error callback; well-formed IR accepted."""
from vp.run import Job

ID = 'C15'
LEVEL = 'proof'
H = 'harness/c15_ir.c'
ND = {'NDEBUG': None}


def jobs(tier):
    J = [
        Job('desc_table', H, 'h_desc_table', defines=ND, unwind=8, no_standard_checks=True, object_bits=10),
        Job('insn_op_mode', H, 'h_insn_op_mode', defines=ND, unwind=8, no_standard_checks=True, object_bits=10),
        Job('wrong_type_p', H, 'h_wrong_type_p', enforce='wrong_type_p', defines=ND, unwind=8, object_bits=10),
        Job('new_insn_arr.fixed', H, 'h_new_insn_fixed', defines=ND, unwind=8, no_standard_checks=True, object_bits=10,
            scope=['vp_on_error', 'vp_ctx_setup'], timeout=600),
        Job('new_insn_arr.call', H, 'h_new_insn_call', defines=ND, unwind=8, no_standard_checks=True, object_bits=10,
            scope=['vp_on_error', 'vp_ctx_setup'], timeout=600),
    ]
    for j in J:
        if not j.enforce:
            j.count_funcs = {'MIR_new_insn_arr', 'create_insn', 'insn_code_nops', 'MIR_insn_op_mode', 'MIR_insn_nops',
                             'MIR_get_error_func', 'vp_error_func', 'MIR_malloc', 'vp_malloc'}
    return J


META = {'functions': [], 'undecided_part': '', 'trusted_base': ['spec/mir_modes.h', 'models/error.h']}
