"""C11 - binary round trip: the scalar token codec (sub-obligations)."""
from vp.run import Job

ID = 'C11'
LEVEL = 'proof'
H = 'harness/c11_codec.c'


def jobs(tier):
    J = []
    for k in ('int', 'uint', 'float', 'double', 'ldouble'):
        j = Job('codec.' + k, H, 'h_' + k, defines={"NDEBUG": None}, unwind=18, no_standard_checks=True, object_bits=10,
                scope=['vp_w', 'vp_r', 'vp_on_error', 'setup'], timeout=600)
        j.count_funcs = {'write_int', 'write_uint', 'write_float', 'write_double', 'write_ldouble', 'read_token', 'read_int',
                         'read_uint', 'get_uint', 'get_int', 'put_uint', 'put_int', 'put_byte', 'get_byte', 'int_length',
                         'uint_length', 'put_float', 'put_double', 'put_ldouble', 'get_float', 'get_double', 'get_ldouble'}
        j.strict_reach = False
        J.append(j)
    # the writer's output goes through the compression layer: its encoder-side obligations (literal-run bound, flush) are
    # decided by the C12 jobs, run here too because the binary round trip depends on them
    from checks import c12
    for j in c12.jobs('quick'):
        if j.name.startswith(('output_byte.', 'symb_flush.')):
            J.append(j)
    return J


META = {'functions': ['write_int', 'write_uint', 'write_float', 'write_double', 'write_ldouble', 'put_ldouble', 'read_token', 'read_int', 'read_uint', '_reduce_output_byte', '_reduce_symb_flush'], 'undecided_part': '', 'trusted_base': ['ghost byte queue in harness/c11_codec.c', 'models/error.h']}
