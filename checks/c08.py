"""C08 - layout and passing as the platform ABI (sub-obligations: member placement, class merge)."""
from vp.run import Job
from vp.stage import REPO

ID = 'C08'
LEVEL = 'proof'
H = 'harness/c08_layout.c'


def agg_job():
    j = Job('aggregate_arg', 'harness/c08_pass.c', 'h_aggregate_arg', defines={'NDEBUG': None}, unwind=4, no_standard_checks=True, object_bits=11,
            incdirs=[REPO + '/c2mir'], timeout=600, solver='cadical',
            ops=[('rename_def', 'classify_arg', 'classify_arg__real', 'vp_model_classify_arg'),
                 ('rename_def', 'update_last_qword_type', 'update_last_qword_type__real', 'vp_model_update_last_qword_type')],
            scope=['classify_arg', 'update_last_qword_type', 'int_class', 'sse_class'])
    j.count_funcs = {'process_aggregate_arg'}
    j.strict_reach = False
    return j


def jobs(tier):
    return [
        agg_job(),
        Job('get_result_type', H, 'h_get_result_type', enforce='get_result_type', defines={'NDEBUG': None}, unwind=8,
            object_bits=11, incdirs=[REPO + '/c2mir'], timeout=600),
        Job('layout3', H, 'h_layout3', defines={'NDEBUG': None}, unwind=30, no_standard_checks=True,
            object_bits=11, incdirs=[REPO + '/c2mir'], kind='bounded', timeout=900, solver='cadical',
            bound='structs of 3 scalar members (char/short/int/long, each optionally a bit-field of any non-zero width)',
            scope=['run_layout3']),
        Job('layout3.zero_width', H, 'h_layout3_zero_width', defines={'NDEBUG': None}, unwind=30,
            no_standard_checks=True, object_bits=11, incdirs=[REPO + '/c2mir'], kind='bounded', timeout=900, solver='cadical',
            bound='as layout3, bit-field widths include 0', scope=['run_layout3']),
        Job('anon_members_offset', 'harness/c08_anon.c', 'h_members_offset', defines={'NDEBUG': None}, unwind=3, unwindset=['update_members_offset.0:4', 'DLIST_node_t_el.0:3'], no_standard_checks=True,
            object_bits=11, incdirs=[REPO + '/c2mir'], kind='bounded', timeout=900, solver='cadical', ops=[('deunion', ('tag_type',))],
            bound='anonymous aggregate with 2 members and a static assertion, the second member a nested anonymous aggregate with 1 member',
            scope=['mk_tag']),
    ]


META = {'functions': ['get_result_type', 'update_field_layout', 'update_members_offset', 'process_aggregate_arg'], 'undecided_part': '', 'trusted_base': ['spec/sysv.h (psABI 3.1.2, 3.2.3)']}
