"""C16 - generation leaves the MIR intact: duplicate/restore of the instruction list (bounded) and the already-generated protocol."""
from vp.run import Job

ID = 'C16'
LEVEL = 'proof'
H = 'harness/c16_dup.c'
OPS = [('rename_def', 'find_rd_by_name', 'find_rd_by_name__real', 'vp_model_find_rd_by_name'),
       ('rename_def', 'HTAB_size_t_do', 'HTAB_size_t_do__real', 'vp_model_HTAB_size_t_do'),
       ('widen_tail', 'MIR_insn', 'ops', 3)]
SHAPES = {'laddr': (2, 0, 5), 'bt': (2, 1, 5), 'jmp': (2, 2, 5), 'switch': (2, 3, 5), 'mov': (2, 4, 5)}


def jobs(tier):
    J = []
    shapes = dict(SHAPES)
    if tier == 'thorough':
        shapes.update({'laddr+bt': (3, 0, 1), 'switch+jmp': (3, 3, 2)})  # a label and two instructions
    for nm, (ni, a, b) in shapes.items():
        for part in ('duplicate', 'restore'):
            d = {'NDEBUG': None, 'NI': ni, 'K1': a, 'K2': b}
            if part == 'restore':
                if nm not in ('laddr', 'switch', 'laddr+bt'):
                    continue  # restore does not look inside instructions: two shapes are enough
                d['VP_RESTORE_ONLY'] = None
            j = Job('%s[%s]' % (part, nm), H, 'h_dup_restore', defines=d, ops=OPS, unwind=8,
                    unwindset=['redirect_duplicated_labels.0:3', 'redirect_duplicated_labels.1:%d' % ni, 'redirect_duplicated_labels.2:2',
                               '_MIR_restore_func_insns.0:3', '_MIR_restore_func_insns.1:3', '_MIR_restore_func_insns.2:2',
                               '_MIR_duplicate_func_insns.0:%d' % (ni + 1), '_MIR_duplicate_func_insns.1:2'],
                    object_bits=10, timeout=900 if tier == 'quick' else 2400, solver='cadical', no_standard_checks=True, kind='bounded',
                    bound='function of a label and %d instruction(s) from LADDR/BT/JMP/SWITCH/MOV, one lref; working copy of <= 2 instructions and <= 2 generator-created registers at restore' % (ni - 1),
                    scope=['vp_on_error', 'mk', 'op_same', 'unchanged', 'vp_malloc', 'vp_free', 'memcpy', 'find_rd_by_name', 'HTAB_size_t_do'])
            j.count_funcs = {'_MIR_duplicate_func_insns', '_MIR_restore_func_insns', 'store_labels_for_duplication', 'redirect_duplicated_labels',
                             'MIR_copy_insn', 'MIR_remove_insn', 'remove_insn'}
            j.strict_reach = False
            j.restrict_fp = ['MIR_realloc.function_pointer_call.1/vp_realloc', 'MIR_malloc.function_pointer_call.1/vp_malloc', 'MIR_free.function_pointer_call.1/vp_free']
            J.append(j)
    g = Job('gen.already_generated', 'harness/c16_gen.c', 'h_already_generated', defines={'NDEBUG': None}, unwind=3, object_bits=10, timeout=600,
            solver='cadical', no_standard_checks=True)
    g.count_funcs = {'generate_func_code', 'MIR_gen'}
    J.append(g)
    return J


META = {'functions': ['_MIR_duplicate_func_insns', '_MIR_restore_func_insns', 'store_labels_for_duplication', 'redirect_duplicated_labels', 'MIR_copy_insn', 'generate_func_code (already-generated protocol)'], 'undecided_part': '', 'trusted_base': ['register-table models in harness/c16_dup.c', 'pool allocator model in harness/c16_dup.c', 'models/error.h']}
