"""C19 - container headers (bitmap, VARR, DLIST, HTAB) against their abstract views."""
from vp.run import Job

ID = 'C19'
LEVEL = 'proof'
H = 'harness/c19_bitmap.c'
ANN = ['annot/bitmap.ann']
ND = {'NDEBUG': None}
# real bitmap_expand is renamed; models/bitmap_expand.h (vp_model_bitmap_expand) takes its name
EXPAND_MODEL = [('rename_def', 'bitmap_expand', 'bitmap_expand__real', 'vp_model_bitmap_expand')]
MD = dict(ND, VP_EXPAND_MODEL=None)


def bitmap_jobs(tier):
    J = []
    # bitmap_expand itself (a loop of VARR_push) is not machine-checked against models/bitmap_expand.h: a loop
    # whose body reallocates has no CBMC-expressible invariant and its bounded unwinding ran the back ends out of
    # memory; VARR_push/expand are proved (varr*.push, varr*.expand).  Listed as an assumption in the evidence.
    J.append(Job('bitmap.bit_p', H, 'h_bit_p', enforce='bitmap_bit_p', defines=ND, unwind=20))
    J.append(Job('bitmap.clear_bit_p', H, 'h_clear_bit_p', enforce='bitmap_clear_bit_p', defines=ND, unwind=20))
    J.append(Job('bitmap.set_bit_p', H, 'h_set_bit_p', enforce='bitmap_set_bit_p', defines=MD, ops=EXPAND_MODEL,
                 unwind=20))
    J.append(Job('bitmap.range_p', H, 'h_range_p', enforce='bitmap_set_or_clear_bit_range_p',
                 defines=MD, anns=ANN, ops=EXPAND_MODEL, unwind=20))
    for f in ('copy', 'equal_p', 'intersect_p', 'empty_p', 'bit_min', 'bit_max', 'iterator_next'):
        J.append(Job('bitmap.' + f, H, 'h_' + f, enforce='bitmap_' + f, defines=MD, anns=ANN, ops=EXPAND_MODEL,
                     unwind=20))
    pats2 = ('dab', 'ddb', 'dad', 'ddd', 'daa')
    pats3 = ('dabc', 'ddbc', 'dadc', 'dabd', 'dddd')
    for f in ('bitmap_and', 'bitmap_and_compl', 'bitmap_ior', 'bitmap_ior_and', 'bitmap_ior_and_compl'):
        pats = pats3 if 'ior_and' in f else pats2
        for k, pt in enumerate(pats):
            if tier == 'quick' and k >= 2 and f not in ('bitmap_and', 'bitmap_ior_and_compl'):
                continue
            J.append(Job('bitmap.%s[%s]' % (f.replace('bitmap_', 'op.'), pt), H, 'h_%s_%s' % (f, pt),
                         enforce='%s_%s' % (f, pt), defines=MD, anns=ANN, ops=EXPAND_MODEL, unwind=20, timeout=900))
    return J


HV = 'harness/c19_varr.c'
VARR_FNS = ('length', 'capacity', 'addr', 'get', 'last', 'set', 'trunc', 'pop', 'expand', 'tailor', 'push', 'push_arr',
            'create', 'destroy')


def varr_jobs(tier, elszs=(8, 16)):
    J = []
    for sz in elszs:
        for f in VARR_FNS:
            J.append(Job('varr%d.%s' % (sz, f), HV, 'h_' + f, enforce='VARR_vp_el_t' + f,
                         defines=dict(ND, VP_ELSZ=sz), anns=['annot/varr.ann'], unwind=20, solver='cadical'))
    return J


def dlist_jobs(tier):
    J = []
    for f in ('append', 'prepend', 'insert_before', 'insert_after', 'remove'):
        J.append(Job('dlist.' + f, 'harness/c19_dlist.c', 'h_' + f, defines=ND, unwind=4, scope=['links'], timeout=300))
    j = Job('dlist.length_el[bounded<=3 nodes]', 'harness/c19_dlist.c', 'h_length_el', defines=ND, unwind=6, scope=['links'],
            kind='bounded', bound='lists of at most 3 nodes', timeout=300)
    J.append(j)
    for j in J:
        j.count_funcs = {'DLIST_node_t_append', 'DLIST_node_t_prepend', 'DLIST_node_t_insert_before', 'DLIST_node_t_insert_after',
                         'DLIST_node_t_remove', 'DLIST_node_t_length', 'DLIST_node_t_el'}
    return J


def with_fallback(j, unwind=8):
    """bounded stand-in used only when the loop contracts no longer fit the code"""
    if not j.anns:
        return j
    j.fallback = Job(j.name + '#bounded-fallback', j.harness, j.entry, enforce=j.enforce,
                     defines=dict(j.defines, VP_SMALL=None), anns=[], ops=j.ops, unwind=unwind, kind='bounded',
                     bound='capacities <= 3 words, loops unwound %d times, no loop contracts' % unwind,
                     timeout=600, loop_contracts=False)
    return j


def jobs(tier):
    J = []
    for j in bitmap_jobs(tier):
        big = any(k in j.name for k in ('bit_min', 'bit_max', 'iterator'))
        j.solver = 'cadical'  # measured: op.ior_and_compl[dabc] 33 s with cadical, 413 s with minisat
        J.append(with_fallback(j, 66 if big else 8))
    J += varr_jobs(tier, (8,) if tier == 'quick' else (1, 8, 16))
    J += dlist_jobs(tier)
    hj = Job('htab.do[bounded 2 slots]', 'harness/c19_htab.c', 'h_htab_do', defines=ND, unwind=8, kind='bounded', timeout=600,
             solver='cadical', bound='table of 2 element slots / 4 index entries, one operation, no rebuild',
             scope=['hash_f', 'eq_f', 'free_f', 'probe'], no_standard_checks=False)
    hj.strict_reach = False
    J.append(hj)
    rj = Job('htab.rebuild[bounded 2 slots]', 'harness/c19_htab2.c', 'h_htab_rebuild', defines=ND, unwind=10, kind='bounded', timeout=900,
             solver='cadical', bound='full table of 2 element slots / 4 index entries (0..2 live elements, tombstones), one INSERT or REPLACE that grows and rebuilds the table',
             scope=['hash_f', 'eq_f', 'free_f', 'probe'], object_bits=10)
    rj.strict_reach = False
    J.append(rj)
    return J


META = {
    'functions': ['bitmap_* (all operations of mir-bitmap.h)', 'VARR_* (all 14 operations of mir-varr.h)', 'DLIST append/prepend/insert_before/insert_after/remove/length/el', 'HTAB_do (incl. growth and rebuild)'],
    'undecided_part': '',
    'trusted_base': ['models/alloc.h', 'models/libc.h', 'models/bitmap_expand.h'],
    'assumptions': ['models/bitmap_expand.h stands for the real bitmap_expand in the proofs of its callers; the real body (a loop of VARR_push, each push proved under contract) is not checked against that model'],
}
