"""C19 - container headers (bitmap, VARR, DLIST, HTAB) against their abstract views."""
from vp.run import Job

ID = 'C19'
LEVEL = 'proof'
H = 'harness/c19_bitmap.c'
ANN = ['annot/bitmap.ann']
ND = {'NDEBUG': None}
# real bitmap_expand is renamed; models/bitmap_expand.h (vp_model_bitmap_expand) takes its name
EXPAND_MODEL = [('rename_def', 'bitmap_expand', 'bitmap_expand__real', 'vp_model_bitmap_expand')]
MD = dict(ND, VP_EXPAND_MODEL=None)


def bitmap_jobs(tier):
    J = []
    J.append(Job('bitmap.expand[bounded<=3 pushes]', H, 'h_expand', enforce='bitmap_expand',
                 defines=dict(ND, VP_EXPAND_BOUND=3), unwind=20, kind='bounded', timeout=900,
                 bound='bitmap_expand adds at most 3 words (a loop with realloc inside has no CBMC-expressible invariant)'))
    J.append(Job('bitmap.bit_p', H, 'h_bit_p', enforce='bitmap_bit_p', defines=ND, unwind=20))
    J.append(Job('bitmap.clear_bit_p', H, 'h_clear_bit_p', enforce='bitmap_clear_bit_p', defines=ND, unwind=20))
    J.append(Job('bitmap.set_bit_p', H, 'h_set_bit_p', enforce='bitmap_set_bit_p', defines=MD, ops=EXPAND_MODEL,
                 unwind=20))
    J.append(Job('bitmap.range_p', H, 'h_range_p', enforce='bitmap_set_or_clear_bit_range_p',
                 defines=MD, anns=ANN, ops=EXPAND_MODEL, unwind=20))
    for f in ('copy', 'equal_p', 'intersect_p', 'empty_p', 'bit_min', 'bit_max', 'iterator_next'):
        J.append(Job('bitmap.' + f, H, 'h_' + f, enforce='bitmap_' + f, defines=MD, anns=ANN, ops=EXPAND_MODEL,
                     unwind=20))
    pats2 = ('dab', 'ddb', 'dad', 'ddd', 'daa')
    pats3 = ('dabc', 'ddbc', 'dadc', 'dabd', 'dddd')
    for f in ('bitmap_and', 'bitmap_and_compl', 'bitmap_ior', 'bitmap_ior_and', 'bitmap_ior_and_compl'):
        pats = pats3 if 'ior_and' in f else pats2
        for k, pt in enumerate(pats):
            if tier == 'quick' and k >= 2 and f not in ('bitmap_and', 'bitmap_ior_and_compl'):
                continue
            J.append(Job('bitmap.%s[%s]' % (f.replace('bitmap_', 'op.'), pt), H, 'h_%s_%s' % (f, pt),
                         enforce='%s_%s' % (f, pt), defines=MD, anns=ANN, ops=EXPAND_MODEL, unwind=20, timeout=900))
    return J


def jobs(tier):
    return bitmap_jobs(tier)


META = {
    'functions': [],
    'undecided_part': '',
    'trusted_base': ['models/alloc.h', 'models/libc.h', 'models/bitmap_expand.h'],
}
