"""C13 - imports bind to the most recently loaded export: per-step contracts with a one-key ghost map."""
from vp.run import Job

ID = 'C13'
LEVEL = 'proof'
H = 'harness/c13_link.c'
OPS = [('rename_def', 'item_tab_find', 'item_tab_find__real', 'vp_model_item_tab_find'),
       ('rename_def', 'HTAB_MIR_item_t_do', 'HTAB_MIR_item_t_do__real', 'vp_model_htab_do'),
       ('rename_def', 'get_ctx_str', 'get_ctx_str__real', 'vp_model_get_ctx_str'),
       ('rename_def', '_MIR_redirect_thunk', '_MIR_redirect_thunk__real', 'vp_model_redirect_thunk')]


def jobs(tier):
    J = []
    for f, kind, bound in (('setup_global', 'proof', None), ('add_item', 'proof', None),
                           ('link_import', 'bounded', 'one module with one import item in modules_to_link'),
                           ('load_export', 'bounded', 'one module with one function item')):
        ops = OPS + [('deunion', ('proto', 'data', 'ref_data', 'lref_data', 'expr_data', 'bss'))] if f == 'add_item' else OPS
        j = Job(f, H, 'h_' + f, defines={'NDEBUG': None}, ops=ops, unwind=4, no_standard_checks=True, object_bits=10, timeout=600, solver='cadical',
                scope=['vp_on_error', 'vp_ctx_setup', 'vp_env_state', 'item_tab_find', 'HTAB_MIR_item_t_do', 'vp_resolver', 'is_def', 'set_name'],
                kind=kind, bound=bound)
        j.count_funcs = {'add_item', 'setup_global', 'MIR_link', 'MIR_load_module', 'MIR_load_external', 'new_export_import_forward', 'create_item'}
        j.strict_reach = False
        J.append(j)
    return J


META = {'functions': ['setup_global', 'add_item', 'MIR_link (import binding)', 'MIR_load_module (export publication)', 'MIR_load_external'], 'undecided_part': '',
        'trusted_base': ['ghost one-key map standing for module_item_tab (models in harness/c13_link.c)', 'models/error.h', 'models/alloc_concrete.h', 'stager op deunion on the add_item job (work-around for a CBMC union dereference defect)']}
