"""C01 - generated code behaves like the interpreter: value-level sub-obligations on mir-gen.c (GVN folding arms, log2, memory disambiguation)."""
from vp.run import Job

ID = 'C01'
LEVEL = 'proof'
H = 'harness/c01_gen.c'
F2 = "EXT8 EXT16 EXT32 UEXT8 UEXT16 UEXT32 NEG NEGS".split()
F3 = ("MUL MULS MULO MULOS UMULO UMULOS DIV DIVS UDIV UDIVS MOD MODS UMOD UMODS AND ANDS OR ORS XOR XORS LSH LSHS RSH RSHS URSH URSHS "
      "EQ EQS NE NES LT LTS ULT ULTS LE LES ULE ULES GT GTS UGT UGTS GE GES UGE UGES ADD ADDS SUB SUBS ADDO ADDOS SUBO SUBOS").split()
HARD = {'MUL', 'MULO', 'UMULO', 'DIV', 'UDIV', 'MOD', 'UMOD', 'MULS', 'MULOS', 'UMULOS', 'DIVS', 'UDIVS', 'MODS', 'UMODS'}
WT = ('widen_tail', 'MIR_insn', 'ops', 3)


def slice_op(c):
    return ('slice_case', 'gvn_modify', 'MIR_' + c, 'static int vp_fold_%s (MIR_insn_t insn, bb_insn_t bb_insn, int64_t *vp_val)' % c,
            'int const_p = 0; int64_t val = *vp_val;', '*vp_val = val; return const_p;')


def jobs(tier):
    J = []
    ops = [WT] + [slice_op(c) for c in F2 + F3]
    for c in F2 + F3:
        j = Job('gvn.fold.' + c, H, 'h_fold_' + c, defines={'NDEBUG': None, 'VP_FOLD': None}, ops=ops, unwind=3, object_bits=10,
                timeout=900, solver='cadical', no_standard_checks=True, scope=['fold_pre', 'fold_post', 'vp_fold_' + c])
        if c in HARD:
            j.defines['VP_SMALL_OPERANDS'] = None
            uns = c.startswith('U')
            j.defines['VP_LO'] = 0 if uns else -256
            j.defines['VP_HI'] = 4096 if uns else 256
            j.kind = 'bounded'
            j.bound = 'both operands any values in [%d, %d), plus' % (j.defines['VP_LO'], j.defines['VP_HI']) + ' every pair from {0, 1, -1, INT64_MIN, INT64_MAX, INT32_MIN, INT32_MAX, 2^32, 2^32+5, 2^32-1, -2^32}'
            j.unwind = 13
            j.object_bits = 12
        j.count_funcs = {'vp_fold_' + c, 'get_gvn_op', 'set_alloca_based_flag'}
        j.strict_reach = False
        J.append(j)
    J.append(Job('int_log2', H, 'h_int_log2', defines={'NDEBUG': None}, unwind=66, object_bits=10, timeout=600, solver='cadical', no_standard_checks=True,
                 kind='bounded', bound='the loop is bounded by the operand width (64 iterations): complete for all inputs when the unwinding assertion passes'))
    for f in ('may_alias', 'alloca_intersect'):
        j = Job(f, H, 'h_' + f, defines={'NDEBUG': None}, unwind=4, object_bits=10, timeout=600, solver='cadical', no_standard_checks=True, scope=['_MIR_type_size'])
        J.append(j)
    return J


META = {'functions': ['gvn_modify (62 constant-folding arms, sliced)', 'get_gvn_op', 'get_gvn_2ops', 'get_gvn_3ops', 'set_alloca_based_flag', 'gen_int_log2', 'may_alias_p', 'alloca_mem_intersect_p'], 'undecided_part': '', 'trusted_base': ['spec/mir_sem.h', '_MIR_type_size contract (proved in C14) used as a model in harness/c01_gen.c']}
