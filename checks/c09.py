"""C09 - #if arithmetic of c2mir's preprocessor (sub-obligations: operator evaluation)."""
from vp.run import Job
from vp.stage import REPO

ID = 'C09'
LEVEL = 'proof'
H = 'harness/c09_ppeval.c'
OPS = ('not bitnot plus neg mul div mod add sub and xor or lsh rsh eq ne lt le gt ge andand oror cond').split()


def jobs(tier):
    J = []
    U = ('not', 'bitnot', 'plus', 'neg')
    for o in OPS:
        sfx = ('s', 'u') if o in U else ('sss', 'ssu', 'sus', 'suu', 'uss', 'usu') if o == 'cond' else ('ss', 'su', 'us', 'uu')
        for x in sfx:
            J.append(pj(o, x))
    lv = Job('ppparse.levels', 'harness/c09_parse.c', 'h_pp_levels', defines={'NDEBUG': None}, unwind=3, no_standard_checks=True, object_bits=11,
             ops=[('rename_def', 'pre_left_op', 'pre_left_op__real', 'vp_model_pre_left_op')], solver='cadical', timeout=600, incdirs=[REPO + '/c2mir'],
             scope=['pre_left_op'])
    lv.count_funcs = {'pre_lor_expr', 'pre_land_expr', 'pre_or_expr', 'pre_xor_expr', 'pre_and_expr', 'pre_eq_expr', 'pre_rel_expr', 'pre_sh_expr',
                      'pre_add_expr', 'pre_mul_expr'}
    J.append(lv)
    cc = Job('paste.concat', 'harness/c09_concat.c', 'h_concat', defines={'NDEBUG': None}, unwind=10, no_standard_checks=True, object_bits=11,
             ops=[('rename_def', 'token_concat', 'token_concat__real', 'vp_model_token_concat'), ('rename_def', 'new_token', 'new_token__real', 'vp_model_new_token')],
             solver='cadical', timeout=600, incdirs=[REPO + '/c2mir'], kind='bounded',
             bound='one ## between two operands (each a token or a placemarker) with optional spaces, one neighbour token on each side',
             scope=['token_concat', 'new_token', 'memmove'])
    cc.count_funcs = {'do_concat', 'del_tokens'}
    cc.strict_reach = False
    J.append(cc)
    return J


def pj(o, x):
    if True:
        j = Job('ppeval.%s.%s' % (o, x), H, 'h_pp_%s_%s' % (o, x), defines=({'NDEBUG': None, 'VP_NO_REACH': None} if o in ('mul', 'div', 'mod') else {'NDEBUG': None}), unwind=4, ops=[('rename_def', 'eval', 'eval__real', 'vp_model_eval')], no_standard_checks=True, object_bits=11,
                solver='z3' if o in ('mul', 'div', 'mod') else 'sat', scope=['run_pp', 'vp_leaf', 'eval'], timeout=600,
                incdirs=[REPO + '/c2mir'])
        j.strict_reach = False
        j.count_funcs = {'eval__real', 'eval_binop_operands', 'DLIST_node_t_el', 'DLIST_node_t_head'}
        return j


META = {'functions': ['eval (c2mir.c #if evaluator)', 'eval_binop_operands', 'pre_lor_expr', 'pre_land_expr', 'pre_or_expr', 'pre_xor_expr', 'pre_and_expr', 'pre_eq_expr', 'pre_rel_expr', 'pre_sh_expr', 'pre_add_expr', 'pre_mul_expr', 'do_concat', 'del_tokens'], 'undecided_part': '', 'trusted_base': ['spec/pp_eval.h (C11 6.10.1, 6.6)']}
