"""C06 - MIR functions as C-ABI callees: the va_arg builtins against the psABI algorithm (sub-obligations)."""
from vp.run import Job

ID = 'C06'
LEVEL = 'proof'
H = 'harness/c06_va.c'


def jobs(tier):
    return [
        Job('va_arg_builtin', H, 'h_va_arg', enforce='va_arg_builtin', defines={'NDEBUG': None}, unwind=20,
            object_bits=10, solver='cadical', timeout=600),
        Job('va_block_arg_builtin', H, 'h_va_block_arg', enforce='va_block_arg_builtin', defines={'NDEBUG': None},
            unwind=20, object_bits=10, solver='cadical', timeout=600),
        frame_job(),
    ]


def frame_job():
    j = Job('frame.save_restore_pairing', 'harness/c06_frame.c', 'h_frame_pairing', defines={'NDEBUG': None}, unwind=3, object_bits=10, solver='cadical',
            timeout=300, no_standard_checks=True,
            ops=[('slice_rhs', 'target_make_prolog_epilog', r'\boffset\s*=\s*(gen_ctx->target_ctx->keep_fp_p\s*\?[^;]*);',
                  ['static int64_t vp_save_start (gen_ctx_t gen_ctx, int64_t bp_saved_reg_offset, size_t stack_slots_size, size_t stack_slots_num)',
                   'static int64_t vp_restore_start (gen_ctx_t gen_ctx, int64_t bp_saved_reg_offset, size_t stack_slots_size, size_t stack_slots_num)'])],
            scope=['vp_save_start', 'vp_restore_start'])
    j.count_funcs = {'vp_save_start', 'vp_restore_start'}
    return j


META = {'functions': ['va_arg_builtin', 'va_block_arg_builtin', 'target_make_prolog_epilog (save/restore start offsets, sliced)'], 'undecided_part': '', 'trusted_base': ['contracts/va.h (x86-64 psABI 3.5.7)', 'models/libc.h']}
