"""C06 - MIR functions as C-ABI callees: the va_arg builtins against the psABI algorithm (sub-obligations)."""
from vp.run import Job

ID = 'C06'
LEVEL = 'proof'
H = 'harness/c06_va.c'


def jobs(tier):
    return [
        Job('va_arg_builtin', H, 'h_va_arg', enforce='va_arg_builtin', defines={'NDEBUG': None}, unwind=20,
            object_bits=10, solver='cadical', timeout=600),
        Job('va_block_arg_builtin', H, 'h_va_block_arg', enforce='va_block_arg_builtin', defines={'NDEBUG': None},
            unwind=20, object_bits=10, solver='cadical', timeout=600),
    ]


META = {'functions': ['va_arg_builtin', 'va_block_arg_builtin'], 'undecided_part': '', 'trusted_base': ['contracts/va.h (x86-64 psABI 3.5.7)', 'models/libc.h']}
