"""C12 - compression layer: decoder memory safety and failure reporting for all streams (capacity 2^k)."""
from vp.run import Job

ID = 'C12'
LEVEL = 'proof'
H = 'harness/c12_reduce.c'
ANN = ['annot/reduce.ann']


def cap(k):
    return [('subst_define', 'mir-reduce.h', '_REDUCE_BUF_LEN', '(1 << %d)' % k)]


def jobs(tier):
    J = []
    ks = (8,) if tier == 'quick' else (6, 8)
    for k in ks:
        for nd in ((True,) if tier == 'quick' else (True, False)):
            d = {'NDEBUG': None} if nd else {}
            tag = 'k%d%s' % (k, '' if nd else '.asserts')
            J.append(Job('decode_get.' + tag, H, 'h_decode_get', enforce='reduce_decode_get',
                         replace=['mir_hash_strict', '_reduce_str2hash'], defines=d, anns=ANN, ops=cap(k), unwind=24, timeout=900,
                         solver='cadical', object_bits=10,
                         pre_unwind=['_reduce_uint_read.0:6', '_reduce_uint_read.1:6', 'vp_reader.0:9']))
            J.append(Job('uint_read.' + tag, H, 'h_uint_read', enforce='_reduce_uint_read', defines=d, ops=cap(k),
                         unwind=10, solver='cadical'))
            J.append(Job('output_byte.' + tag, H, 'h_output_byte', enforce='_reduce_output_byte', defines=d, ops=cap(k),
                         unwind=10, solver='cadical'))
            J.append(Job('symb_flush.' + tag, H, 'h_symb_flush', enforce='_reduce_symb_flush', defines=d, ops=cap(k),
                         unwind=10, solver='cadical'))
            J.append(Job('decode_finish.' + tag, H, 'h_decode_finish', enforce='reduce_decode_finish', defines=d,
                         ops=cap(k), unwind=10, solver='cadical'))
    return J


META = {'functions': ['reduce_decode_get', '_reduce_uint_read', 'reduce_decode_finish', '_reduce_output_byte', '_reduce_symb_flush'], 'undecided_part': '', 'trusted_base': ['models/alloc.h', 'models/libc.h']}
