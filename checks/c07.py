"""C07 - c2mir vs reference compiler (sub-obligations: the type conversion rules)."""
from vp.run import Job
from vp.stage import REPO

ID = 'C07'
LEVEL = 'proof'
H = 'harness/c07_conv.c'


def jobs(tier):
    J = []
    for f in ('integer_promotion', 'arithmetic_conversion'):
        j = Job(f, H, 'h_' + f, defines={'NDEBUG': None}, unwind=6, no_standard_checks=True, object_bits=11,
                incdirs=[REPO + '/c2mir'], scope=['same_attr'], timeout=600)
        j.count_funcs = {'integer_promotion', 'arithmetic_conversion', 'signed_integer_type_p', 'floating_type_p',
                         'standard_integer_type_p', 'integer_type_p', 'init_type'}
        J.append(j)
    # by-value aggregates at the c2mir/native boundary: register exhaustion rule (shared with C08)
    from checks import c08
    J.append(c08.agg_job())
    return J


META = {'functions': ['integer_promotion', 'arithmetic_conversion', 'process_aggregate_arg'], 'undecided_part': '', 'trusted_base': ['spec/c11_types.h (C11 6.3.1.1, 6.3.1.8; LP64, signed plain char)']}
