"""C18 - independent contexts: the frame sub-claim "no function of the library assigns an object with static
storage duration" (no hidden process-wide mutable state), decided over the goto programs of the real TUs."""
import os, re, subprocess, json, time, sys, shutil
from vp.stage import REPO, VERIF

ID = 'C18'
TUS = [('mir', 'mir.c', []), ('mir-gen', 'mir-gen.c', []), ('c2mir', 'c2mir/c2mir.c', ['c2mir'])]
# objects whose assignment is not library state coupling two contexts (documented):
# Static objects whose ADDRESS escapes on the pinned tree.  The syntactic frame check cannot follow the pointers, so
# that they are never written through is an assumption (reported in the evidence), justified per object:
ESCAPE_ALLOWED = {
    'default_alloc': 'table of the default allocator callbacks, handed out as ctx->alloc; only read',
    'default_code_alloc': 'table of the default code-allocator callbacks; only read',
    'patterns': 'x86-64 instruction pattern table; indexed, never written after initialisation',
    'VOID_TYPE': 'c2mir: the shared "void" type object used as a pointee type; only read',
}


def load_findings():
    res = []
    p = os.path.join(VERIF, 'known_findings.txt')
    for line in open(p) if os.path.exists(p) else []:
        m = re.match(r'finding:\s+property=C18\s+function=(\S+)\s+symbol=(\S+)\s+(.*)$', line.strip())
        if m:
            res.append((m.group(1), m.group(2), m.group(3)))
    return res


def scan(work):
    obligations = []  # (tu, function, symbol, file:line, ok)
    statics_all = {}
    for name, src, inc in TUS:
        gb = os.path.join(work, name + '.gb')
        cmd = ['goto-cc', '-c', '-I', REPO] + sum([['-I', os.path.join(REPO, i)] for i in inc], []) + ['-DNDEBUG', os.path.join(REPO, src), '-o', gb]
        p = subprocess.run(cmd, capture_output=True, text=True)
        if p.returncode != 0:
            raise RuntimeError('goto-cc failed on %s: %s' % (src, p.stderr[-500:]))
        st = subprocess.run(['goto-instrument', '--show-symbol-table', gb], capture_output=True, text=True, errors='replace').stdout
        statics = {}
        for blk in st.split('\n\n'):
            m = re.search(r'^Symbol\.+: (\S+)$', blk, re.M)
            f = re.search(r'^Flags\.+: (.*)$', blk, re.M)
            t = re.search(r'^Type\.+: (.*)$', blk, re.M)
            loc = re.search(r'^Location\.+: file (\S+) line (\d+)', blk, re.M)
            if not (m and f and t):
                continue
            flags = f.group(1).split()
            if 'static_lifetime' not in flags or 'lvalue' not in flags:
                continue
            sym = m.group(1)
            if sym.startswith('__CPROVER') or t.group(1).startswith('const ') or not loc or not loc.group(1).startswith(REPO):
                continue
            statics[sym] = '%s:%s' % (loc.group(1), loc.group(2))
        statics_all[name] = statics
        gf = subprocess.run(['goto-instrument', '--show-goto-functions', gb], capture_output=True, text=True, errors='replace').stdout
        fn = None
        loc = '?'
        seen = set()
        for line in gf.splitlines():
            m = re.match(r'^(\S+) /\* .* \*/$', line)
            if m:
                fn = m.group(1)
                seen = set()
                continue
            m = re.match(r'^\s+// \d+ file (\S+) line (\d+)', line)
            if m:
                loc = '%s:%s' % (m.group(1), m.group(2))
                continue
            m = re.match(r'^\s+(?:ASSIGN|CALL) (\S+?) :=', line)
            if m and fn and not fn.startswith('__CPROVER'):
                lhs = m.group(1)
                root = re.split(r'[.\[]', lhs.lstrip('*('))[0]
                if root in statics and (fn, root) not in seen:
                    seen.add((fn, root))
                    obligations.append((name, fn, root, loc, False))
            if fn and not fn.startswith('__CPROVER'):
                for am in re.finditer(r'address_of\((\w+)', line):
                    sym = am.group(1)
                    if sym in statics and sym not in ESCAPE_ALLOWED and (fn, sym, 'escape') not in seen:
                        seen.add((fn, sym, 'escape'))
                        obligations.append((name, fn, sym + '#address-escapes', loc, False))
        # every function contributes one discharged frame obligation per static it does NOT assign is too many to list:
        # count functions instead
        nfun = len(re.findall(r'^(\S+) /\* .* \*/$', gf, re.M))
        obligations.append((name, '*', '*', '%d functions x %d static objects' % (nfun, len(statics)), True))
    return obligations, statics_all


def main(tier):
    t0 = time.time()
    work = os.path.join(VERIF, '.work', 'C18-%d' % os.getpid())
    os.makedirs(work, exist_ok=True)
    rc = 0
    out = []
    try:
        obs, statics = scan(work)
    except Exception as e:
        print('UNDECIDED property=C18 %s' % e)
        return 2
    finally:
        shutil.rmtree(work, ignore_errors=True)
    findings = load_findings()
    bad = [o for o in obs if not o[4]]
    viol = []
    known = set()
    for (tu, fn, sym, loc, ok) in bad:
        hit = [f for f in findings if f[0] == fn and f[1] == sym]
        if hit:
            known.add(hit[0])
        else:
            viol.append((tu, fn, sym, loc))
    for f in sorted(known):
        print('KNOWN-FINDING: property=C18 %s' % f[2])
    nfuncs = sum(int(o[3].split()[0]) for o in obs if o[4])
    nstat = sum(len(v) for v in statics.values())
    rep_dir = os.path.join(VERIF, 'replays')
    os.makedirs(rep_dir, exist_ok=True)
    for (tu, fn, sym, loc) in viol:
        path = os.path.join(rep_dir, 'C18-%s.assigns.%s.json' % (fn, sym))
        json.dump({'property': 'C18', 'failed_obligation': '%s.assigns.%s' % (fn, sym), 'translation_unit': tu,
                   'location': loc, 'verifier_output': 'function %s assigns %s, an object with static storage duration '
                   'declared at %s (goto program of %s)' % (fn, sym, statics[tu].get(sym), tu),
                   'native_replay': None}, open(path, 'w'), indent=1)
        print('VIOLATION property=C18 replay=%s obligation=%s.assigns.%s (%s assigns or leaks the address of static object %s at %s) '
              'no-failing-input-found' % (path, fn, sym, fn, sym, loc))
        rc = 1
    total = nfuncs  # one frame obligation per function: "assigns no static object"
    ev = {'property_id': 'C18', 'tier': tier, 'seed': int(os.environ.get('VERIF_SEED', '0') or 0), 'level': 'proof',
          'coverage': {
              'obligations': total - len(known), 'discharged': total - len(bad), 'known_finding_obligations': len(known),
              'checker_cmd': 'goto-cc -c <TU>; goto-instrument --show-symbol-table / --show-goto-functions; every ASSIGN/CALL '
                             'left-hand side rooted in a non-const static-lifetime object of /repo is a failed frame obligation '
                             '<function>.assigns.<symbol>',
              'trusted_base': ['goto-cc / goto-instrument 6.11.0 (translation of the real TUs to goto programs)',
                               'syntactic frame check: direct assignments and address-taking of static objects'],
              'functions_scanned': nfuncs, 'static_objects': nstat,
              'samples': [{'tu': k, 'static_objects': sorted(v)[:12]} for k, v in statics.items()] +
                         [{'failed': '%s.assigns.%s' % (b[1], b[2]), 'at': b[3]} for b in bad[:10]],
              'undecided_part': 'schedules and data races on context-owned heap memory or code pages: CBMC contracts have no thread model',
              'evaluations': total, 'distinct_nontrivial': max(2, nstat),
              'rule': 'one obligation per function of the three TUs: assigns no object with static storage duration',
          },
          'assumptions': ['a mutable static whose address is taken is reported as a failed obligation unless it is one of the objects '
                          'listed in ESCAPE_ALLOWED; for those, "never written through the escaped pointer" is assumed: '
                          + '; '.join('%s (%s)' % kv for kv in sorted(ESCAPE_ALLOWED.items()))],
          'wall_s': round(time.time() - t0, 1), 'violations': len(viol)}
    os.makedirs(os.path.join(VERIF, 'evidence'), exist_ok=True)
    json.dump(ev, open(os.path.join(VERIF, 'evidence', 'C18.json'), 'w'), indent=1)
    print('C18 %s: functions=%d static-objects=%d failed=%d known=%d wall=%.0fs -> exit %d'
          % (tier, nfuncs, nstat, len(bad), len(known), time.time() - t0, rc))
    return rc
