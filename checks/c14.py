"""C14 - data sections: contiguous, in order, correctly initialised (bounded) + element sizes (proof)."""
from vp.run import Job

ID = 'C14'
LEVEL = 'proof'
H = 'harness/c14_data.c'
DEU = [('deunion', ('proto', 'data', 'ref_data', 'lref_data', 'expr_data', 'bss'))]


def jobs(tier):
    J = [Job('type_size', H, 'h_type_size', enforce='_MIR_type_size', defines={'NDEBUG': None}, unwind=4, object_bits=10, timeout=300)]
    j1 = Job('load_section.contents[1 item]', H, 'h_load_section', defines={'NDEBUG': None, 'VP_NITEMS': 1}, ops=DEU, unwind=5, object_bits=10,
             timeout=600, solver='cadical', no_standard_checks=True, kind='bounded', bound='one item: bss <= 24 bytes zeroed, data <= 32 bytes copied',
             scope=['vp_on_error', 'type_size', 'memset', 'memmove', 'memcpy'])
    j1.strict_reach = False
    J.append(j1)
    j = Job('load_section.layout[2 items]', H, 'h_load_section', defines={'NDEBUG': None, 'VP_NITEMS': 2, 'VP_NO_GHOST_COPY': None}, ops=DEU, unwind=4, unwindset=['load_bss_data_section.0:3', 'load_bss_data_section.1:3'], object_bits=10, timeout=1500, solver='cadical', no_standard_checks=True,
            kind='bounded', bound='runs of at most 2 data items (the code distinguishes only the first item from the rest); bss length <= 24 bytes, data payload <= 32 bytes',
            scope=['vp_on_error', 'type_size', 'memset', 'memmove', 'memcpy'])
    j.count_funcs = {'load_bss_data_section', '_MIR_type_size', 'MIR_malloc', 'vp_malloc', 'malloc'}
    j.strict_reach = False
    if tier == 'thorough':
        J.append(j)
    return J


META = {'functions': [], 'undecided_part': '',
        'trusted_base': ['models/alloc_concrete.h', 'models/libc.h (ghost byte)', 'stager op deunion (work-around for a CBMC union dereference defect)']}
