"""C14 - data sections: contiguous, in order, correctly initialised (bounded) + element sizes (proof)."""
from vp.run import Job

ID = 'C14'
LEVEL = 'proof'
H = 'harness/c14_data.c'
DEU = [('deunion', ('proto', 'data', 'ref_data', 'lref_data', 'expr_data', 'bss'))]


def jobs(tier):
    J = [Job('type_size', H, 'h_type_size', enforce='_MIR_type_size', defines={'NDEBUG': None}, unwind=4, object_bits=10, timeout=300)]
    j1 = Job('load_section.contents[1 item]', H, 'h_load_section', defines={'NDEBUG': None, 'VP_NITEMS': 1}, ops=DEU, unwind=5, object_bits=10,
             timeout=600, solver='cadical', no_standard_checks=True, kind='bounded', bound='one item: bss <= 24 bytes zeroed, data <= 32 bytes copied',
             scope=['vp_on_error', 'type_size', 'memset', 'memmove', 'memcpy'])
    j1.strict_reach = False
    J.append(j1)
    j = Job('load_section.layout[2 items]', H, 'h_load_section', defines={'NDEBUG': None, 'VP_NITEMS': 2, 'VP_NO_GHOST_COPY': None}, ops=DEU, unwind=4, unwindset=['load_bss_data_section.0:3', 'load_bss_data_section.1:3'], object_bits=10, timeout=1500, solver='cadical', no_standard_checks=True,
            kind='bounded', bound='runs of at most 2 data items (the code distinguishes only the first item from the rest); bss length <= 24 bytes, data payload <= 32 bytes',
            scope=['vp_on_error', 'type_size', 'memset', 'memmove', 'memcpy'])
    j.count_funcs = {'load_bss_data_section', '_MIR_type_size', 'MIR_malloc', 'vp_malloc', 'malloc'}
    j.strict_reach = False
    if tier == 'thorough':
        J.append(j)
    from checks import c13
    for kd in ('ref', 'expr'):
        lv = Job('link.values.' + kd, c13.H, 'h_link_values_' + kd, defines={'NDEBUG': None, 'VP_LINK_VALUES': None},
                 ops=c13.OPS + DEU + [('rename_def', 'MIR_interp', 'MIR_interp__real', 'vp_model_interp')], unwind=4, unwindset=['memcpy.0:17'], no_standard_checks=True,
                 object_bits=10, timeout=600, solver='cadical', kind='bounded', bound='one module with one ref or expr data item',
                 scope=['vp_on_error', 'vp_ctx_setup', 'item_tab_find', 'HTAB_MIR_item_t_do', 'MIR_interp', 'memcpy', 'run_link_values'])
        lv.count_funcs = {'MIR_link', '_MIR_type_size'}
        lv.strict_reach = False
        J.append(lv)
    return J


META = {'functions': ['_MIR_type_size', 'load_bss_data_section', 'MIR_link (ref/expr data values)'], 'undecided_part': '',
        'trusted_base': ['models/alloc_concrete.h', 'models/libc.h (ghost byte)', 'stager op deunion (work-around for a CBMC union dereference defect)']}
