"""C05 - calls from MIR to native code: the interpreter's argument/result marshalling (sub-obligations, bounded in arity)."""
from vp.run import Job

ID = 'C05'
LEVEL = 'proof'
H = 'harness/c05_call.c'
# function-pointer call sites of the code under test and the only target each may have in the harness (asserted, not assumed)
RFP = ['call.function_pointer_call.1/vp_error_func', 'call.function_pointer_call.2/vp_tramp',
       'MIR_realloc.function_pointer_call.1/vp_realloc', 'MIR_malloc.function_pointer_call.1/vp_malloc',
       'MIR_free.function_pointer_call.1/vp_free']


def jobs(tier):
    out = []
    shapes = [(n, r) for n in range(4) for r in range(3)]
    if tier == 'thorough':
        shapes += [(4, 1), (5, 0), (5, 2)]
    if True:
        for (n, r) in shapes:
            j = Job('interp.call[args=%d.res=%d]' % (n, r), H, 'h_call_%d_%d' % (n, r), defines={'NDEBUG': None, 'MAXA': 5} if n > 3 else {'NDEBUG': None}, unwind=5 if n <= 3 else 7, object_bits=10,
                    timeout=900, solver='cadical',
                    ops=[('rename_def', 'get_ff_interface', 'get_ff_interface__real', 'vp_model_get_ff_interface')],
                    kind='bounded', bound='prototype arity fixed per job (quick: 0..3 arguments, thorough: also 4 and 5; any split fixed/variadic; 0..2 results); scratch capacities 1..8',
                    scope=['vp_on_error', 'vp_tramp', 'get_ff_interface', 'narrow', 'run_call'])
            j.strict_reach = False
            j.restrict_fp = RFP
            j.count_funcs = {'call', 'VARR_MIR_val_texpand', 'VARR__MIR_arg_desc_texpand', 'VARR_MIR_val_taddr', 'VARR__MIR_arg_desc_taddr',
                             'VARR_MIR_var_tlength', 'VARR_MIR_var_taddr', 'MIR_realloc', 'get_i', 'MIR_all_blk_type_p', 'MIR_get_error_func'}
            out.append(j)
    e = Job('ffi_cache.eq', 'harness/c05_ffi.c', 'h_ffi_eq', defines={'NDEBUG': None}, anns=['annot/ffi.ann'], unwind=3,
            object_bits=10, solver='cadical', timeout=600, no_standard_checks=True)
    # used only when the loop contract no longer fits the code: same harness, <= 3 arguments/results, loop unwound
    e.fallback = Job('ffi_cache.eq#bounded-fallback', 'harness/c05_ffi.c', 'h_ffi_eq', defines={'NDEBUG': None, 'VP_SMALL': None}, anns=[],
                     unwind=5, object_bits=10, solver='cadical', timeout=600, no_standard_checks=True, kind='bounded',
                     bound='at most 3 arguments and 3 results, loop unwound, no loop contract', loop_contracts=False)
    out.append(e)
    return out


META = {'functions': ['call (mir-interp.c)', 'ff_interface_eq'], 'undecided_part': '', 'trusted_base': ['trampoline and interface-cache models in harness/c05_call.c', 'models/alloc.h (scratch arrays: reallocated contents are unconstrained)']}
