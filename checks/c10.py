"""C10 - textual output: writer safety and termination per item kind (sub-obligations)."""
from vp.run import Job

ID = 'C10'
LEVEL = 'proof'
H = 'harness/c10_output.c'
KINDS = ('export', 'import', 'forward', 'bss', 'ref_data', 'lref_data', 'expr_data')


def jobs(tier):
    J = []
    for k in KINDS:
        j = Job('output_item.' + k, H, 'h_output_MIR_%s_item' % k, defines={'NDEBUG': None}, unwind=42, object_bits=10,
                scope=['run_output', 'fprintf'], timeout=300)
        j.count_funcs = {'MIR_output_item', 'MIR_item_name', 'output_func_proto', 'output_vars', 'MIR_output_insn',
                         '_MIR_output_data_item_els', 'MIR_type_str'}
        j.strict_reach = False
        J.append(j)
    for e in ('str', 'float', 'double', 'ldouble', 'proto'):
        j = Job('text.' + e, 'harness/c10_text.c', 'h_output_' + e, defines={'NDEBUG': None}, unwind=18, unwindset=['h_output_str.2:50'], object_bits=10,
                scope=['fprintf', 'emit', 'spec_decode', 'at', 'isprint', 'run_proto', 'vp_on_error', 'vp_out_FLOAT', 'vp_out_DOUBLE', 'vp_out_LDOUBLE'], timeout=600, solver='cadical', no_standard_checks=True,
                ops=[('slice_case', 'MIR_output_op', 'MIR_OP_' + m, 'static void vp_out_%s (FILE *f, MIR_op_t op)' % m, '', 'return;') for m in ('FLOAT', 'DOUBLE', 'LDOUBLE')])
        j.restrict_fp = ['MIR_type_str.function_pointer_call.1/vp_error_func']
        if e == 'str':
            j.kind = 'bounded'
            j.bound = 'strings of at most 3 bytes (every byte value)'
        if e == 'proto':
            j.kind = 'bounded'
            j.bound = 'every shape with at most 2 results and 1 parameter, with and without the variadic marker'
        j.count_funcs = {'MIR_output_str', 'MIR_output_op', 'output_func_proto', 'MIR_type_str', 'type_str'}
        j.strict_reach = False
        J.append(j)
    return J


META = {'functions': ['MIR_output_item', 'MIR_output_str', 'MIR_output_op (float/double/long double arms, sliced)', 'output_func_proto'], 'undecided_part': '', 'trusted_base': ['fprintf model in harness/c10_output.c (FILE opaque)', 'character-level fprintf model and C-locale isprint in harness/c10_text.c']}
