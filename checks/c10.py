"""C10 - textual output: writer safety and termination per item kind (sub-obligations)."""
from vp.run import Job

ID = 'C10'
LEVEL = 'proof'
H = 'harness/c10_output.c'
KINDS = ('export', 'import', 'forward', 'bss', 'ref_data', 'lref_data', 'expr_data')


def jobs(tier):
    J = []
    for k in KINDS:
        j = Job('output_item.' + k, H, 'h_output_MIR_%s_item' % k, defines={'NDEBUG': None}, unwind=42, object_bits=10,
                scope=['run_output', 'fprintf'], timeout=300)
        j.count_funcs = {'MIR_output_item', 'MIR_item_name', 'output_func_proto', 'output_vars', 'MIR_output_insn',
                         '_MIR_output_data_item_els', 'MIR_type_str'}
        j.strict_reach = False
        J.append(j)
    return J


META = {'functions': [], 'undecided_part': '', 'trusted_base': ['fprintf model in harness/c10_output.c (FILE opaque)']}
