"""C17 - allocator discipline: realloc gets the true old size (VARR), code bytes written only inside the write window."""
from vp.run import Job
from checks import c19

ID = 'C17'
LEVEL = 'proof'


def jobs(tier):
    J = []
    # every realloc in the library that goes through VARR reports the block's true size: the allocator model
    # asserts it inside VARR expand/tailor/push/push_arr (shared text of all instantiations)
    for j in c19.varr_jobs(tier, (1, 8, 16)):
        if j.name.split('.')[1] in ('expand', 'tailor', 'push', 'push_arr', 'create', 'destroy'):
            J.append(j)
    J.append(Job('set_code', 'harness/c17_code.c', 'h_set_code', defines={'NDEBUG': None}, anns=['annot/code.ann'],
                 unwind=20, object_bits=10, solver='cadical', timeout=600, no_standard_checks=True))
    return J


META = {'functions': [], 'undecided_part': '', 'trusted_base': ['models/alloc.h', 'mem_protect / memcpy window model in harness/c17_code.c']}
