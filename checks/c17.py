"""C17 - allocator discipline: realloc gets the true old size (VARR), code bytes written only inside the write window."""
from vp.run import Job
from checks import c19

ID = 'C17'
LEVEL = 'proof'


def jobs(tier):
    J = []
    # every realloc in the library that goes through VARR reports the block's true size: the allocator model
    # asserts it inside VARR expand/tailor/push/push_arr (shared text of all instantiations)
    for j in c19.varr_jobs(tier, (1, 8, 16)):
        if j.name.split('.')[1] in ('expand', 'tailor', 'push', 'push_arr', 'create', 'destroy'):
            J.append(j)
    J.append(Job('set_code', 'harness/c17_code.c', 'h_set_code', defines={'NDEBUG': None}, anns=['annot/code.ann'],
                 unwind=20, object_bits=10, solver='cadical', timeout=600, no_standard_checks=True))
    model = [('rename_def', '_MIR_set_code', '_MIR_set_code__real', 'vp_model_set_code')]
    W = {}
    for f in ('update_code_arr', 'change_code', 'add_code'):
        j = Job('window.' + f, 'harness/c17_code.c', 'h_' + f, defines={'NDEBUG': None, 'VP_SET_CODE_MODEL': None},
                ops=model, unwind=6, object_bits=10, solver='cadical', timeout=600, no_standard_checks=True,
                scope=['_MIR_set_code', 'vp_ctx_setup'])
        j.count_funcs = {'_MIR_update_code_arr', '_MIR_change_code', 'add_code'}
        W[f] = j
    # _MIR_update_code_arr: the max-offset loop is closed by a loop contract (annot/code.ann) for any number of
    # relocations up to the capacity of the harness array (256); the former bounded job (<= 3 relocations, loop
    # unwound) is its bounded fallback: it runs only when the loop contract no longer fits the code
    W['update_code_arr'].name = 'window.update_code_arr#bounded-fallback'
    W['update_code_arr'].kind = 'bounded'
    W['update_code_arr'].bound = 'at most 3 relocations (the max-offset loop is unwound), offsets <= 2^40'
    j = Job('window.update_code_arr', 'harness/c17_code.c', 'h_update_code_arr_lc', defines={'NDEBUG': None, 'VP_SET_CODE_MODEL': None},
            ops=model, anns=['annot/code.ann'], unwind=6, object_bits=10, solver='cadical', timeout=600, no_standard_checks=True,
            scope=['_MIR_set_code', 'vp_ctx_setup'], fallback=W['update_code_arr'])
    j.count_funcs = {'_MIR_update_code_arr'}
    J += [j, W['change_code'], W['add_code']]
    lt = Job('gen.looptree_pairing', 'harness/c17_looptree.c', 'h_looptree_pairing', defines={'NDEBUG': None}, unwind=3, object_bits=10, solver='cadical',
             timeout=300, no_standard_checks=True,
             ops=[('slice_cond', 'generate_func_code',
                   r'if\s*\((?=[^;{}()]*\)\s*\{\s*build_loop_tree\s*\(gen_ctx\)\s*;\s*\{\s*if\s*\([^{}]*\{\s*print_loop_tree\s*\(gen_ctx,\s*1\)\s*;\s*\}\s*;\s*\}\s*;\s*\}\s*if\s*\()',
                   'static int vp_cond_build (gen_ctx_t gen_ctx)'),
                  ('slice_cond', 'generate_func_code',
                   r'if\s*\((?=[^;{}()]*\)\s*destroy_loop_tree\s*\(gen_ctx,\s*gen_ctx->curr_cfg->root_loop_node\)\s*;\s*destroy_func_cfg)',
                   'static int vp_cond_destroy (gen_ctx_t gen_ctx)')],
             scope=['vp_cond_build', 'vp_cond_destroy'])
    lt.count_funcs = {'vp_cond_build', 'vp_cond_destroy'}
    J.append(lt)
    return J


META = {'functions': ['VARR expand/tailor/push/push_arr/create/destroy', '_MIR_set_code', '_MIR_update_code_arr', '_MIR_change_code', 'add_code', 'generate_func_code (build/destroy conditions of the loop tree, sliced)'], 'undecided_part': '', 'trusted_base': ['models/alloc.h', 'mem_protect / memcpy window model in harness/c17_code.c']}
