/* C02 (generator side, one rule): x86-64 value-producing FP compares.  target_machinize rewrites "less" compares
   into "greater" compares with swapped operands because (its own comment) only those are correct for unordered
   operands on x86-64.  The arm of target_machinize's switch for the integer/FP compare instructions is copied
   verbatim (staging op slice_case); for every float/double compare code: the rewritten instruction computes the
   same truth value as the original for all operands incl. NaN (spec/mir_sem.h), and no FLT/FLE/DLT/DLE is left. */
#include <stdint.h>
#include <stddef.h>
#include "mir-gen.c"
#include "spec/mir_sem.h"
#define REACH(msg) __CPROVER_assert (0, "VP_REACH: " msg)
#define ENS(c, msg) __CPROVER_assert (c, "postcondition: " msg)
int nondet_int (void); double nondet_double (void); float nondet_float (void);
static void vp_machinize_cmp (gen_ctx_t gen_ctx, MIR_context_t ctx, MIR_insn_t insn, MIR_insn_code_t code);
static struct gen_ctx vp_gen; static struct MIR_insn vp_insn;
static unsigned vp_added; static struct MIR_insn vp_new;
MIR_insn_t MIR_new_insn (MIR_context_t ctx, MIR_insn_code_t code, ...) { (void) ctx; vp_new.code = code; return &vp_new; } /* mir.c is not part of this translation unit */
static void vp_model_gen_add_insn_after (gen_ctx_t gen_ctx, MIR_insn_t after, MIR_insn_t insn) { (void) gen_ctx; (void) after; (void) insn; vp_added++; } /* list surgery: not part of this obligation */
static int cmp_d (int code, double a, double b) {
  switch (code) { case MIR_DEQ: return a == b; case MIR_DNE: return a != b; case MIR_DLT: return a < b; case MIR_DLE: return a <= b; case MIR_DGT: return a > b; default: return a >= b; }
}
static int cmp_f (int code, float a, float b) {
  switch (code) { case MIR_FEQ: return a == b; case MIR_FNE: return a != b; case MIR_FLT: return a < b; case MIR_FLE: return a <= b; case MIR_FGT: return a > b; default: return a >= b; }
}
static void run (int code, int dbl) {
  /* operand k is "register k": the value it denotes is va for reg 1, vb for reg 2 */
  vp_insn.code = (MIR_insn_code_t) code; vp_insn.nops = 3;
  vp_insn.ops[0].mode = MIR_OP_VAR; vp_insn.ops[0].u.var = 0;
  vp_insn.ops[1].mode = MIR_OP_VAR; vp_insn.ops[1].u.var = 1;
  vp_insn.ops[2].mode = MIR_OP_VAR; vp_insn.ops[2].u.var = 2;
  vp_machinize_cmp (&vp_gen, (MIR_context_t) 0, &vp_insn, (MIR_insn_code_t) code);
  int nc = vp_insn.code;
  ENS (nc != MIR_FLT && nc != MIR_FLE && nc != MIR_DLT && nc != MIR_DLE, "no less-than FP compare is handed to the x86-64 patterns (they are not correct for unordered operands)");
  ENS ((vp_insn.ops[1].u.var == 1 && vp_insn.ops[2].u.var == 2) || (vp_insn.ops[1].u.var == 2 && vp_insn.ops[2].u.var == 1), "the operands are kept or swapped");
  int swapped = vp_insn.ops[1].u.var == 2;
  if (dbl) { double a = nondet_double (), b = nondet_double ();
    ENS (cmp_d (nc, swapped ? b : a, swapped ? a : b) == cmp_d (code, a, b), "the rewritten compare has the truth value of the original for all operands, NaN included"); }
  else { float a = nondet_float (), b = nondet_float ();
    ENS (cmp_f (nc, swapped ? b : a, swapped ? a : b) == cmp_f (code, a, b), "the rewritten compare has the truth value of the original for all operands, NaN included"); }
}
void h_machinize_fcmp (void) {
  static const int dc[] = {MIR_DEQ, MIR_DNE, MIR_DLT, MIR_DLE, MIR_DGT, MIR_DGE}, fc[] = {MIR_FEQ, MIR_FNE, MIR_FLT, MIR_FLE, MIR_FGT, MIR_FGE};
  for (int k = 0; k < 6; k++) { run (dc[k], 1); run (fc[k], 0); }
  REACH ("end");
}
