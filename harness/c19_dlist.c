/* C19 DLIST: local link contracts of every list operation (harness-contract style).  The list around the
   touched nodes is opaque: head/tail/neighbour pointers that the operation must not follow are arbitrary
   non-null values, so a proof here holds for lists of every length.  Frame: the neighbours' other link,
   and every field the contract does not name, keep their values. */
#include <stddef.h>
#include <stdint.h>
#include "mir-dlist.h"
typedef struct node *node_t;
DEF_DLIST_LINK (node_t);
struct node { int v; DLIST_LINK (node_t) link; };
DEF_DLIST (node_t, link);
#define REACH(msg) __CPROVER_assert (0, "VP_REACH: " msg)
#define ENS(c, msg) __CPROVER_assert (c, "postcondition: " msg)
int nondet_int (void);
node_t nondet_ptr (void);
static struct node A, B, C, E; /* A <-> B <-> C are list neighbours, E is the element operated on */
static DLIST (node_t) L;
static void links (void) { A.link.next = &B; B.link.prev = &A; B.link.next = &C; C.link.prev = &B; }

void h_append (void) {
  int empty = nondet_int ();
  node_t far_head = nondet_ptr ();
  if (empty) { L.head = L.tail = NULL; } else { __CPROVER_assume (far_head != NULL); L.head = far_head; L.tail = &C; C.link.next = NULL; C.link.prev = &B; }
  DLIST_APPEND (node_t, L, &E);
  ENS (L.tail == &E && E.link.next == NULL, "appended element is the tail and ends the list");
  ENS (empty ? (L.head == &E && E.link.prev == NULL) : (L.head == far_head && E.link.prev == &C && C.link.next == &E && C.link.prev == &B),
       "append links the element after the old tail and keeps the rest of the list");
  if (empty) REACH ("empty"); else REACH ("non-empty");
}
void h_prepend (void) {
  int empty = nondet_int ();
  node_t far_tail = nondet_ptr ();
  if (empty) { L.head = L.tail = NULL; } else { __CPROVER_assume (far_tail != NULL); L.tail = far_tail; L.head = &A; A.link.prev = NULL; A.link.next = &B; }
  DLIST_PREPEND (node_t, L, &E);
  ENS (L.head == &E && E.link.prev == NULL, "prepended element is the head");
  ENS (empty ? (L.tail == &E && E.link.next == NULL) : (L.tail == far_tail && E.link.next == &A && A.link.prev == &E && A.link.next == &B),
       "prepend links the element before the old head and keeps the rest of the list");
  if (empty) REACH ("empty"); else REACH ("non-empty");
}
void h_insert_before (void) {
  int first = nondet_int ();
  node_t far_tail = nondet_ptr ();
  __CPROVER_assume (far_tail != NULL);
  links (); L.tail = far_tail;
  if (first) { L.head = &B; B.link.prev = NULL; } else { L.head = &A; A.link.prev = NULL; }
  DLIST_INSERT_BEFORE (node_t, L, &B, &E);
  ENS (E.link.next == &B && B.link.prev == &E && B.link.next == &C, "element is linked directly before the given one");
  ENS (first ? (L.head == &E && E.link.prev == NULL) : (L.head == &A && A.link.next == &E && E.link.prev == &A && A.link.prev == NULL),
       "predecessor (or the list head) now leads to the new element");
  ENS (L.tail == far_tail && C.link.prev == &B, "the rest of the list is untouched");
  if (first) REACH ("before head"); else REACH ("inner");
}
void h_insert_after (void) {
  int last = nondet_int ();
  node_t far_head = nondet_ptr ();
  __CPROVER_assume (far_head != NULL);
  links (); L.head = far_head;
  if (last) { L.tail = &B; B.link.next = NULL; } else { L.tail = &C; C.link.next = NULL; }
  DLIST_INSERT_AFTER (node_t, L, &B, &E);
  ENS (E.link.prev == &B && B.link.next == &E && B.link.prev == &A, "element is linked directly after the given one");
  ENS (last ? (L.tail == &E && E.link.next == NULL) : (L.tail == &C && C.link.prev == &E && E.link.next == &C && C.link.next == NULL),
       "successor (or the list tail) now leads back to the new element");
  ENS (L.head == far_head && A.link.next == &B, "the rest of the list is untouched");
  if (last) REACH ("after tail"); else REACH ("inner");
}
void h_remove (void) {
  int first = nondet_int (), last = nondet_int ();
  node_t far_head = nondet_ptr (), far_tail = nondet_ptr ();
  __CPROVER_assume (far_head != NULL && far_tail != NULL);
  links ();
  node_t A_prev = nondet_ptr (), C_next = nondet_ptr ();
  A.link.prev = A_prev; C.link.next = C_next;
  if (first) { B.link.prev = NULL; L.head = &B; } else L.head = far_head;
  if (last) { B.link.next = NULL; L.tail = &B; } else L.tail = far_tail;
  DLIST_REMOVE (node_t, L, &B);
  ENS (B.link.prev == NULL && B.link.next == NULL, "removed element has no links left");
  ENS (first ? L.head == (last ? NULL : &C) : (L.head == far_head && A.link.next == (last ? NULL : &C)), "predecessor (or head) skips the removed element");
  ENS (last ? L.tail == (first ? NULL : &A) : (L.tail == far_tail && C.link.prev == (first ? NULL : &A)), "successor (or tail) skips the removed element");
  ENS (A.link.prev == A_prev && C.link.next == C_next, "no other link of the neighbours changes");
  if (first && last) REACH ("only element"); if (!first && !last) REACH ("inner");
}
/* length / el: bounded (lists of up to 3 nodes) */
void h_length_el (void) {
  int n = nondet_int ();
  __CPROVER_assume (n >= 0 && n <= 3);
  node_t arr[3] = {&A, &B, &C};
  L.head = n ? &A : NULL; L.tail = n ? arr[n - 1] : NULL;
  for (int i = 0; i < 3; i++) { arr[i]->link.prev = i > 0 && i < n ? arr[i - 1] : NULL; arr[i]->link.next = i + 1 < n ? arr[i + 1] : NULL; }
  ENS (DLIST_LENGTH (node_t, L) == (size_t) n, "length counts the elements");
  int k = nondet_int ();
  __CPROVER_assume (k >= -4 && k <= 4);
  node_t e = DLIST_EL (node_t, L, k);
  ENS (e == (k >= 0 ? (k < n ? arr[k & 3] : NULL) : (-k <= n ? arr[(n + k) & 3] : NULL)), "el(k) is the k-th element from the head, el(-k) from the tail, NULL outside");
  REACH ("end");
}
