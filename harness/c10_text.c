/* C10 (text level): a character-level model of fprintf collects what the REAL writer functions print.
   (a) MIR_output_str on strings of up to 3 arbitrary bytes: the text is a double-quoted literal whose body,
       decoded by the C11 6.4.4.4 escape rules (an independent decoder below), is exactly the input bytes, and
       contains no raw quote, backslash-less control character or newline.
   (b) MIR_output_op on float/double/long double immediates: printed with at least FLT/DBL/LDBL_DECIMAL_DIG
       significant digits (C11 5.2.4.2.2: enough to read the same value back).
   (c) output_func_proto: results, parameters and the variadic marker are separated by ", " exactly
       (up to 2 results, 1 parameter).
   Assumption: C locale (isprint = 0x20..0x7e). */
#include <stdint.h>
#include <stddef.h>
#include <stdio.h>
#include <stdarg.h>
#include <float.h>
#define NOUT 48
static char vp_out[NOUT]; static unsigned vp_n; static int vp_overflow;
static int vp_fp_kind, vp_fp_prec; /* last floating conversion: 1 float/double (%e), 2 long double (%Le) */
static void emit (char c) { if (vp_n < NOUT) vp_out[vp_n++] = c; else vp_overflow = 1; }
int isprint (int c) { return c >= 0x20 && c <= 0x7e; }
int fprintf (FILE *f, const char *fmt, ...) {
  (void) f;
  va_list ap;
  va_start (ap, fmt);
  for (unsigned i = 0; i < 12 && fmt[i] != 0; i++) {
    if (fmt[i] != '%') { emit (fmt[i]); continue; }
    i++;
    if (fmt[i] == 'c') emit ((char) va_arg (ap, int));
    else if (fmt[i] == 's') { const char *s = va_arg (ap, const char *); for (unsigned k = 0; k < 6 && s[k] != 0; k++) emit (s[k]); }
    else if (fmt[i] == '0' && fmt[i + 1] == '3' && fmt[i + 2] == 'o') { unsigned v = va_arg (ap, unsigned) & 0xff; /* CBMC does not apply the default argument promotions: only the low byte of a char argument is defined */ i += 2;
      __CPROVER_assert (v < 512, "fprintf model: %03o of a byte"); emit ('0' + ((v >> 6) & 7)); emit ('0' + ((v >> 3) & 7)); emit ('0' + (v & 7)); }
    else if (fmt[i] == 'o') { unsigned v = va_arg (ap, unsigned) & 0xff;
      __CPROVER_assert (v < 512, "fprintf model: %o of a byte"); if (v >= 64) emit ('0' + ((v >> 6) & 7)); if (v >= 8) emit ('0' + ((v >> 3) & 7)); emit ('0' + (v & 7)); }
    else if (fmt[i] == '.' && fmt[i + 1] == '*' && fmt[i + 2] == 'e') { vp_fp_prec = va_arg (ap, int); (void) va_arg (ap, double); vp_fp_kind = 1; i += 2; emit ('#'); }
    else if (fmt[i] == '.' && fmt[i + 1] == '*' && fmt[i + 2] == 'L' && fmt[i + 3] == 'e') { vp_fp_prec = va_arg (ap, int); (void) va_arg (ap, long double); vp_fp_kind = 2; i += 3; emit ('#'); }
    else if (fmt[i] == 'l' && fmt[i + 1] == 'u') { (void) va_arg (ap, unsigned long); i += 1; emit ('9'); }
    else __CPROVER_assert (0, "fprintf model: conversion not used by the functions under test");
  }
  va_end (ap);
  return 0;
}
#define __NO_CTYPE 1
#include "mir.c"
#include "models/error.h"
static void vp_on_error (int code) { (void) code; __CPROVER_assert (0, "postcondition: no error is raised"); }
#define REACH(msg) __CPROVER_assert (0, "VP_REACH: " msg)
#define ENS(c, msg) __CPROVER_assert (c, "postcondition: " msg)
int nondet_int (void); size_t nondet_size (void); char nondet_char (void);
static struct MIR_context vp_ctx;
/* C11 6.4.4.4 decoder of the body of a string literal (simple and octal escapes) */
static int spec_decode (const char *t, unsigned from, unsigned to, unsigned char *out, unsigned max) {
  unsigned n = 0, i = from;
  for (unsigned step = 0; step < 16; step++) {
    if (i >= to) return (int) n;
    if (n >= max) return -1;
    char c = t[i++];
    if (c == '"' || c == '\n') return -1; /* not allowed raw inside a literal */
    if (c != '\\') { out[n++] = (unsigned char) c; continue; }
    if (i >= to) return -1;
    c = t[i++];
    switch (c) {
    case 'n': out[n++] = '\n'; break; case 't': out[n++] = '\t'; break; case 'v': out[n++] = '\v'; break;
    case 'a': out[n++] = '\a'; break; case 'b': out[n++] = '\b'; break; case 'f': out[n++] = '\f'; break;
    case 'r': out[n++] = '\r'; break; case '\\': out[n++] = '\\'; break; case '"': out[n++] = '"'; break;
    case '\'': out[n++] = '\''; break;
    default:
      if (c < '0' || c > '7') return -1;
      { unsigned v = (unsigned) (c - '0');
        if (i < to && t[i] >= '0' && t[i] <= '7') { v = v * 8 + (unsigned) (t[i++] - '0'); if (i < to && t[i] >= '0' && t[i] <= '7') v = v * 8 + (unsigned) (t[i++] - '0'); }
        if (v > 255) return -1;
        out[n++] = (unsigned char) v; }
    }
  }
  return -1;
}
void h_output_str (void) {
  char s[3]; size_t len = nondet_size ();
  __CPROVER_assume (len <= 3);
  for (int k = 0; k < 3; k++) s[k] = nondet_char ();
  MIR_str_t str; str.len = len; str.s = s;
  MIR_output_str (&vp_ctx, (FILE *) 0, str);
  ENS (!vp_overflow && vp_n >= 2 && vp_out[0] == '"' && vp_out[vp_n - 1] == '"', "a string is printed as a double-quoted literal");
  unsigned char back[3];
  int n = spec_decode (vp_out, 1, vp_n - 1, back, 3);
  ENS (n == (int) len, "the printed literal decodes (C11 escape rules) to a string of the same length");
  for (int k = 0; k < 3; k++) if ((size_t) k < len) ENS (back[k] == (unsigned char) s[k], "the printed literal decodes to the same bytes");
  for (unsigned k = 1; k + 1 < NOUT; k++) if (k + 1 < vp_n) ENS (vp_out[k] >= 0x20 && vp_out[k] <= 0x7e, "only printable characters are written inside the literal");
  if (len == 3) REACH ("three bytes");
  REACH ("end");
}
/* the three arms of MIR_output_op's switch, copied verbatim by staging op slice_case (the by-value operand keeps
   CBMC from seeing the dispatch on op.mode as concrete, and the other arms reach the register tables) */
static void vp_out_FLOAT (FILE *f, MIR_op_t op); static void vp_out_DOUBLE (FILE *f, MIR_op_t op); static void vp_out_LDOUBLE (FILE *f, MIR_op_t op);
static MIR_op_t vp_op;
void h_output_float (void) {
  vp_out_FLOAT ((FILE *) 0, vp_op); /* "%.*e" with precision p prints p + 1 significant digits */
  ENS (vp_fp_kind == 1 && vp_fp_prec + 1 >= FLT_DECIMAL_DIG, "a float immediate is printed with enough digits to be read back exactly");
  ENS (vp_n == 2 && vp_out[1] == 'f', "a float immediate carries the f suffix");
  REACH ("end");
}
void h_output_double (void) {
  vp_out_DOUBLE ((FILE *) 0, vp_op);
  ENS (vp_fp_kind == 1 && vp_fp_prec + 1 >= DBL_DECIMAL_DIG, "a double immediate is printed with enough digits to be read back exactly");
  ENS (vp_n == 1, "a double immediate has no suffix");
  REACH ("end");
}
void h_output_ldouble (void) {
  vp_out_LDOUBLE ((FILE *) 0, vp_op);
  ENS (vp_fp_kind == 2 && vp_fp_prec + 1 >= LDBL_DECIMAL_DIG, "a long double immediate is printed with enough digits to be read back exactly");
  ENS (vp_n == 2 && vp_out[1] == 'L', "a long double immediate carries the L suffix");
  REACH ("end");
}
/* (c) prototype / function header punctuation */
static MIR_var_t vp_args_a[1]; static VARR (MIR_var_t) vp_args;
static int at (unsigned *p, const char *lit) { /* does vp_out continue with lit at *p; advances */
  for (unsigned k = 0; k < 6 && lit[k] != 0; k++) { if (*p >= vp_n || vp_out[*p] != lit[k]) return 0; (*p)++; }
  return 1;
}
static void run_proto (size_t nres, size_t nargs, int vararg) { /* concrete shape: a symbolic count would let symex run the loops past the arrays */
  MIR_context_t ctx = &vp_ctx;
  error_func = (MIR_error_func_t) vp_error_func;
  MIR_type_t rt[2] = {MIR_T_I64, MIR_T_D};
  static char nm[2] = "a";
  vp_n = 0;
  vp_args_a[0].type = MIR_T_I32; vp_args_a[0].name = nm; vp_args.els_num = nargs; vp_args.size = 1; vp_args.varr = vp_args_a;
  output_func_proto (ctx, (FILE *) 0, nres, rt, nargs, &vp_args, vararg);
  unsigned p = 0; int ok = 1, first = 1;
  if (nres >= 1) { ok = ok && at (&p, "i64"); first = 0; }
  if (nres >= 2) ok = ok && at (&p, ", ") && at (&p, "d");
  if (nargs >= 1) { if (!first) ok = ok && at (&p, ", "); ok = ok && at (&p, "i32:a"); first = 0; }
  if (vararg) { if (!first) ok = ok && at (&p, ", "); ok = ok && at (&p, "..."); }
  ok = ok && at (&p, "\n") && p == vp_n;
  ENS (!vp_overflow && ok, "results, parameters and the variadic marker are printed as a comma-separated list ended by a newline");
}
void h_output_proto (void) {
  for (size_t nres = 0; nres <= 2; nres++)
    for (size_t nargs = 0; nargs <= 1; nargs++)
      for (int vararg = 0; vararg <= 1; vararg++) run_proto (nres, nargs, vararg);
  REACH ("end");
}
