/* C08: register exhaustion for aggregates passed by value (psABI 3.2.3: "If there are no registers available for any
   eightbyte of an argument, the whole argument is passed on the stack").  The REAL process_aggregate_arg of
   cx86_64-ABI-code.c with classify_arg / update_last_qword_type answered by models (an arbitrary classification of
   1 or 2 eightbytes): the aggregate goes to registers exactly when it is a struct/union, no eightbyte is of an x87
   class, and the integer and SSE registers still free cover all its eightbytes; the register counts are advanced
   by exactly its eightbytes then, and are left alone otherwise. */
#include "c2mir/c2mir.c"
#define REACH(msg) __CPROVER_assert (0, "VP_REACH: " msg)
#define ENS(c, msg) __CPROVER_assert (c, "postcondition: " msg)
int nondet_int (void);
static int vp_nq; static MIR_type_t vp_q[2];
static int vp_model_classify_arg (c2m_ctx_t c2m_ctx, struct type *type, MIR_type_t types[MAX_QWORDS], int bit_field_p) {
  (void) c2m_ctx; (void) type; (void) bit_field_p;
  for (int k = 0; k < 2; k++) if (k < vp_nq) types[k] = vp_q[k];
  return vp_nq;
}
static void vp_model_update_last_qword_type (c2m_ctx_t c2m_ctx, struct type *type, MIR_type_t qword_types[MAX_QWORDS], int n) {
  (void) c2m_ctx; (void) type; (void) n; /* may narrow the last eightbyte's type inside its class: keep the class */
  if (vp_nq == 1 && qword_types[0] == MIR_T_I64 && nondet_int ()) qword_types[0] = MIR_T_I32;
  if (vp_nq == 1 && qword_types[0] == MIR_T_D && nondet_int ()) qword_types[0] = MIR_T_F;
}
static struct c2m_ctx vp_c2m; static struct type vp_t;
static int int_class (MIR_type_t t) { return t == MIR_T_I8 || t == MIR_T_I16 || t == MIR_T_I32 || t == MIR_T_I64; }
static int sse_class (MIR_type_t t) { return t == MIR_T_F || t == MIR_T_D; }
void h_aggregate_arg (void) {
  vp_nq = nondet_int (); __CPROVER_assume (vp_nq >= 0 && vp_nq <= 2);
  for (int k = 0; k < 2; k++) { int c = nondet_int (); __CPROVER_assume (c >= 0 && c <= 3);
    vp_q[k] = c == 0 ? MIR_T_I64 : c == 1 ? MIR_T_D : c == 2 ? MIR_T_LD : (MIR_type_t) X87UP_CLASS; }
  int m = nondet_int (); __CPROVER_assume (m == TM_STRUCT || m == TM_UNION || m == TM_ARR || m == TM_BASIC);
  vp_t.mode = (enum type_mode) m;
  target_arg_info_t ai; ai.n_iregs = nondet_int (); ai.n_fregs = nondet_int ();
  __CPROVER_assume (ai.n_iregs >= 0 && ai.n_iregs <= 6 && ai.n_fregs >= 0 && ai.n_fregs <= 8);
  int i0 = ai.n_iregs, f0 = ai.n_fregs;
  MIR_type_t qt[MAX_QWORDS];
  int r = process_aggregate_arg (&vp_c2m, &vp_t, &ai, qt);
  int ni = 0, nf = 0, x87 = 0;
  for (int k = 0; k < 2; k++) if (k < vp_nq) { ni += int_class (vp_q[k]); nf += sse_class (vp_q[k]); x87 += !int_class (vp_q[k]) && !sse_class (vp_q[k]); }
  int in_regs = vp_nq > 0 && (m == TM_STRUCT || m == TM_UNION) && !x87 && i0 + ni <= 6 && f0 + nf <= 8;
  ENS ((r != 0) == in_regs, "an aggregate is passed in registers exactly when registers are left for all of its eightbytes");
  if (r != 0) { ENS (r == vp_nq && ai.n_iregs == i0 + ni && ai.n_fregs == f0 + nf, "the registers taken are its integer and SSE eightbytes"); REACH ("registers"); }
  else { ENS (ai.n_iregs == i0 && ai.n_fregs == f0, "an aggregate passed in memory takes no registers"); REACH ("memory"); }
  if (in_regs && i0 + ni == 6) REACH ("last integer register used");
  REACH ("end");
}
