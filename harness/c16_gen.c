/* C16: the "already generated" protocol of the REAL generate_func_code (mir-gen.c).  A second request for the
   code of a generated function (machine_code != NULL) returns the same entry address as the first one did
   (func_item->addr, the thunk), re-points the thunk at the generated code, and does not touch the function's
   MIR (no duplicate/restore, no change of insns, machine_code, call_addr).  The functions of mir.c it could call
   are stubs that record the call. */
#include <stdint.h>
#include <stddef.h>
#include "mir-gen.c"
#define REACH(msg) __CPROVER_assert (0, "VP_REACH: " msg)
#define ENS(c, msg) __CPROVER_assert (c, "postcondition: " msg)
void *nondet_ptr (void);
static unsigned vp_redirects, vp_dups, vp_restores; static void *vp_thunk, *vp_to;
void _MIR_redirect_thunk (MIR_context_t ctx, void *thunk, void *to) { (void) ctx; vp_redirects++; vp_thunk = thunk; vp_to = to; }
void _MIR_duplicate_func_insns (MIR_context_t ctx, MIR_item_t func_item) { (void) ctx; (void) func_item; vp_dups++; }
void _MIR_restore_func_insns (MIR_context_t ctx, MIR_item_t func_item) { (void) ctx; (void) func_item; vp_restores++; }
static struct gen_ctx vp_gen; static gen_ctx_t vp_slot;
static struct MIR_item vp_fi; static struct MIR_func vp_f; static struct MIR_insn vp_i0;
void h_already_generated (void) {
  MIR_context_t ctx = (MIR_context_t) &vp_slot; /* gen_ctx_loc: the generator context pointer is the first word of the context */
  gen_ctx_t gen_ctx = &vp_gen; /* the member macros of mir-gen.c name this variable */
  vp_slot = gen_ctx; gen_ctx->ctx = ctx;
#if !MIR_NO_GEN_DEBUG
  debug_file = NULL;
#endif
  vp_fi.item_type = MIR_func_item; vp_fi.data = NULL; vp_fi.u.func = &vp_f;
  static uint8_t vp_code[16]; /* concrete, so that symbolic execution does not enter the generator pipeline */
  void *thunk = nondet_ptr (), *code = vp_code, *entry = vp_code + 8;
  vp_fi.addr = thunk; vp_f.machine_code = code; vp_f.call_addr = entry;
  DLIST_INIT (MIR_insn_t, vp_f.insns); DLIST_APPEND (MIR_insn_t, vp_f.insns, &vp_i0);
  DLIST_INIT (MIR_insn_t, vp_f.original_insns);
  void *r = MIR_gen (ctx, &vp_fi);
  ENS (r == thunk, "asking again for the code of a generated function returns the same entry address");
  ENS (vp_fi.addr == thunk && vp_f.machine_code == code && vp_f.call_addr == entry, "the generated code is kept");
  ENS (vp_redirects == 1 && vp_thunk == thunk && vp_to == entry, "the function's thunk is pointed at the generated code");
  ENS (vp_dups == 0 && vp_restores == 0 && DLIST_HEAD (MIR_insn_t, vp_f.insns) == &vp_i0 && DLIST_NEXT (MIR_insn_t, &vp_i0) == NULL
       && DLIST_HEAD (MIR_insn_t, vp_f.original_insns) == NULL && vp_fi.data == NULL, "the function's MIR is not touched");
  REACH ("end");
}
