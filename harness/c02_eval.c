/* C02: every harness builds a tiny interpreter code array around ONE instruction whose opcode
   is symbolic within a class, with fully symbolic register contents, runs the REAL eval() of
   /repo/mir-interp.c (switch dispatch: -DMIR_DIRECT_DISPATCH, same opcode bodies as the
   threaded build) and compares the observable outcome with spec/mir_sem.h.
   Harness-contract style: requires = the __CPROVER_assume lines, ensures = the assertions. */
#define MIR_DIRECT_DISPATCH 1
#include "mir.c"
#include "spec/mir_sem.h"

#define REACH(msg) __CPROVER_assert (0, "VP_REACH: " msg)
#define ENS(c, msg) __CPROVER_assert (c, "postcondition: " msg)
int nondet_int (void);
uint64_t nondet_u64 (void);
MIR_val_t nondet_val (void);

static struct MIR_context vp_ctx;
static struct interp_ctx vp_ictx;
static MIR_val_t vp_bp_store[8 + 2]; /* eval may touch bp[-2], bp[-1] */
static MIR_val_t *vp_bp;
static MIR_val_t vp_res[2];
static MIR_val_t vp_cells[32]; /* cell 0 holds the func_desc header, code starts at cell 1 */
static func_desc_t vp_fd;
static MIR_val_t *C; /* code array */
#define SAMEF(x, y) ((x) == (y) || ((x) != (x) && (y) != (y)))

static void vp_setup (void) {
  vp_ctx.interp_ctx = &vp_ictx;
  vp_bp = vp_bp_store + 2;
  vp_fd = (func_desc_t) &vp_cells[0];
  __CPROVER_assert ((char *) vp_fd->code == (char *) &vp_cells[1], "layout: code array starts at cell 1");
  C = &vp_cells[1];
  for (int i = 0; i < 8; i++) vp_bp[i] = nondet_val (); /* all 16 bytes: long double uses 80 bits */
}
/* register indices: dst in {1,2,3}, sources in {1,2}: covers dst==src aliasing */
#define PICK_REGS(d, s1, s2)                                                                   \
  int d = nondet_int (), s1 = nondet_int (), s2 = nondet_int ();                               \
  __CPROVER_assume (d >= 1 && d <= 3 && s1 >= 1 && s1 <= 2 && s2 >= 1 && s2 <= 2)

/* tail: [k] MOVI r5,0 ; RET r5,r3 ; [k+7] MOVI r5,1 ; RET r5,r3  -- returns (taken?, r3) */
static void vp_tail (int k) {
  C[k].ic = IC_MOVI; C[k + 1].i = 5; C[k + 2].i = 0;
  C[k + 3].ic = MIR_RET; C[k + 4].i = 2; C[k + 5].i = 5; C[k + 6].i = 3;
  C[k + 7].ic = IC_MOVI; C[k + 8].i = 5; C[k + 9].i = 1;
  C[k + 10].ic = MIR_RET; C[k + 11].i = 2; C[k + 12].i = 5; C[k + 13].i = 3;
}

/* three-operand integer insns; the opcode is a constant of the entry point */
static void run_int3 (const int code, const int fixed_regs) {
  vp_setup ();
  PICK_REGS (d, s1, s2);
  if (fixed_regs) __CPROVER_assume (d == 3 && s1 == 1 && s2 == 2);
  uint64_t a = vp_bp[s1].u, b = vp_bp[s2].u;
  sem_int_t s = sem_int3 (code, a, b);
  __CPROVER_assume (s.defined); /* MIR.md leaves /0, MIN/-1, oversized shift counts undefined */
  C[0].ic = code; C[1].i = d; C[2].i = s1; C[3].i = s2;
  C[4].ic = MIR_RET; C[5].i = 1; C[6].i = d;
  eval (&vp_ctx, vp_fd, vp_bp, vp_res);
  ENS (sem_agree (s, vp_res[0].u), "integer insn result equals MIR.md semantics (low 32 bits for S insns)");
  if (!fixed_regs && d == s1) REACH ("dst aliases src1");
  if (s.w32) REACH ("32-bit insn"); else REACH ("64-bit insn");
  REACH ("end");
}

static void run_int2 (const int code) {
  vp_setup ();
  PICK_REGS (d, s1, s2);
  sem_int_t s = sem_int2 (code, vp_bp[s1].u);
  C[0].ic = code; C[1].i = d; C[2].i = s1;
  C[3].ic = MIR_RET; C[4].i = 1; C[5].i = d;
  eval (&vp_ctx, vp_fd, vp_bp, vp_res);
  ENS (s.defined && sem_agree (s, vp_res[0].u), "two-operand integer insn result equals MIR.md semantics");
  if (d == s1) REACH ("dst aliases src"); else REACH ("distinct");
  REACH ("end");
}

static void run_branch (const int code) {
  vp_setup ();
  PICK_REGS (d, s1, s2);
  uint64_t a = vp_bp[s1].u, b = vp_bp[s2].u;
  int two = code == MIR_BT || code == MIR_BF || code == MIR_BTS || code == MIR_BFS;
  int k;
  if (two) { C[0].ic = code; C[1].i = 3 + 7; C[2].i = s1; k = 3; }
  else { C[0].ic = code; C[1].i = 4 + 7; C[2].i = s1; C[3].i = s2; k = 4; }
  vp_tail (k);
  eval (&vp_ctx, vp_fd, vp_bp, vp_res);
  ENS (vp_res[0].i == sem_branch (code, a, b), "branch taken exactly when MIR.md says");
  if (vp_res[0].i) REACH ("taken"); else REACH ("fall through");
  if (two) REACH ("bt/bf family");
  REACH ("end");
}

static void run_ovf (const int code, const int br, const int special, const int small) {
  vp_setup ();
  PICK_REGS (d, s1, s2);
  __CPROVER_assume (d == 3);
  if (special || small) __CPROVER_assume (s1 == 1 && s2 == 2);
  uint64_t a = vp_bp[s1].u, b = vp_bp[s2].u;
  { /* multiplication flags: the general equivalence of the two division forms is beyond every installed
       back end; proved for one operand in {0, 1, -1} (special 1..6), bounded for small magnitudes */
    int w32 = code == MIR_MULOS || code == MIR_UMULOS || code == MIR_ADDOS || code == MIR_SUBOS;
    int64_t xa = w32 ? (int64_t) (int32_t) a : (int64_t) a, xb = w32 ? (int64_t) (int32_t) b : (int64_t) b;
    if (special == 1) __CPROVER_assume (xa == 0);
    if (special == 2) __CPROVER_assume (xa == 1);
    if (special == 3) __CPROVER_assume (xa == -1);
    if (special == 4) __CPROVER_assume (xb == 0);
    if (special == 5) __CPROVER_assume (xb == 1);
    if (special == 6) __CPROVER_assume (xb == -1);
    if (small) __CPROVER_assume (xa >= -small && xa <= small && xb >= -small && xb <= small);
  }
  sem_ovf_t o = sem_ovf (code, a, b);
  int uns = br == MIR_UBO || br == MIR_UBNO;
  if (!(uns ? o.u_def : o.s_def)) return; /* a signed-overflow branch must follow a signed insn (C15 rule) */
  C[0].ic = code; C[1].i = 3; C[2].i = s1; C[3].i = s2;
  C[4].ic = br; C[5].i = 6 + 7;
  vp_tail (6);
  eval (&vp_ctx, vp_fd, vp_bp, vp_res);
  int flag = uns ? o.u_ovf : o.s_ovf;
  int expect = (br == MIR_BO || br == MIR_UBO) ? flag : !flag;
  ENS (vp_res[0].i == expect, "overflow branch taken exactly when the documented flag is set");
  ENS (sem_agree (sem_int3 (code, a, b), vp_res[1].u), "overflow insn value equals MIR.md semantics");
  if (flag) REACH ("overflow"); else REACH ("no overflow");
  REACH ("end");
}

/* floating point compares and compare-branches */
static void run_fcmp (const int code) {
  vp_setup ();
  int rel = sem_fp_rel (code), kind = sem_fp_kind (code);
  int is_br = code == MIR_FBEQ || code == MIR_FBNE || code == MIR_FBLT || code == MIR_FBLE || code == MIR_FBGT
              || code == MIR_FBGE || code == MIR_DBEQ || code == MIR_DBNE || code == MIR_DBLT || code == MIR_DBLE
              || code == MIR_DBGT || code == MIR_DBGE || code == MIR_LDBEQ || code == MIR_LDBNE || code == MIR_LDBLT
              || code == MIR_LDBLE || code == MIR_LDBGT || code == MIR_LDBGE;
  PICK_REGS (d, s1, s2);
  __CPROVER_assume (d == 3);
  int expect;
  if (kind == 'f') expect = sem_fcmp (rel, vp_bp[s1].f, vp_bp[s2].f);
  else if (kind == 'd') expect = sem_dcmp (rel, vp_bp[s1].d, vp_bp[s2].d);
  else expect = sem_ldcmp (rel, vp_bp[s1].ld, vp_bp[s2].ld);
  if (is_br) {
    C[0].ic = code; C[1].i = 4 + 7; C[2].i = s1; C[3].i = s2;
    vp_tail (4);
    eval (&vp_ctx, vp_fd, vp_bp, vp_res);
    ENS (vp_res[0].i == expect, "FP branch taken exactly when the C comparison holds (false on NaN except !=)");
    REACH ("branch form");
  } else {
    C[0].ic = code; C[1].i = 3; C[2].i = s1; C[3].i = s2;
    C[4].ic = MIR_RET; C[5].i = 1; C[6].i = 3;
    eval (&vp_ctx, vp_fd, vp_bp, vp_res);
    ENS (vp_res[0].i == expect, "FP compare yields 1/0 as the C comparison (false on NaN except !=)");
    REACH ("value form");
  }
  if (expect) REACH ("true"); else REACH ("false");
  REACH ("end");
}

/* FP arithmetic */
#define IN_GRID(x) ((x) == 0.5 || (x) == 1.0 || (x) == 2.0 || (x) == 3.0 || (x) == -3.0)
static void run_farith (const int code, const int grid) {
  vp_setup ();
  PICK_REGS (d, s1, s2);
  int kind = sem_fp_kind (code);
  if (grid) { /* bounded stand-in: SAT cannot equate two FP multipliers/dividers over the full domain */
    __CPROVER_assume (d == 3 && s1 == 1 && s2 == 2);
    if (kind == 'f') __CPROVER_assume (IN_GRID (vp_bp[1].f) && IN_GRID (vp_bp[2].f));
    else if (kind == 'd') __CPROVER_assume (IN_GRID (vp_bp[1].d) && IN_GRID (vp_bp[2].d));
    else __CPROVER_assume (IN_GRID (vp_bp[1].ld) && IN_GRID (vp_bp[2].ld));
  }
  float ef = sem_farith (code, vp_bp[s1].f, vp_bp[s2].f);
  double ed = sem_darith (code, vp_bp[s1].d, vp_bp[s2].d);
  long double el = sem_ldarith (code, vp_bp[s1].ld, vp_bp[s2].ld);
  C[0].ic = code; C[1].i = d; C[2].i = s1; C[3].i = s2;
  C[4].ic = MIR_RET; C[5].i = 1; C[6].i = d;
  eval (&vp_ctx, vp_fd, vp_bp, vp_res);
  if (kind == 'f') ENS (SAMEF (vp_res[0].f, ef), "single precision arithmetic result");
  else if (kind == 'd') ENS (SAMEF (vp_res[0].d, ed), "double precision arithmetic result");
  else ENS (SAMEF (vp_res[0].ld, el), "long double arithmetic result");
  REACH ("end");
}

/* FP two-operand insns: moves, negation, conversions */
static void run_fp2 (const int code) {
  vp_setup ();
  PICK_REGS (d, s1, s2);
  MIR_val_t in = vp_bp[s1];
  C[0].ic = code; C[1].i = d; C[2].i = s1;
  C[3].ic = MIR_RET; C[4].i = 1; C[5].i = d;
  /* FP -> integer is defined only when the truncated value fits (C11 6.3.1.4) */
  if (code == MIR_F2I) __CPROVER_assume (in.f > -9.2e18f && in.f < 9.2e18f);
  if (code == MIR_D2I) __CPROVER_assume (in.d > -9.2e18 && in.d < 9.2e18);
  if (code == MIR_LD2I) __CPROVER_assume (in.ld > -9.2e18L && in.ld < 9.2e18L);
  eval (&vp_ctx, vp_fd, vp_bp, vp_res);
  MIR_val_t out = vp_res[0];
  switch (code) {
  case MIR_FMOV: ENS (SAMEF (out.f, in.f), "fmov"); break;
  case MIR_DMOV: ENS (SAMEF (out.d, in.d), "dmov"); break;
  case MIR_LDMOV: ENS (SAMEF (out.ld, in.ld), "ldmov"); break;
  case MIR_FNEG: ENS (SAMEF (out.f, -in.f), "fneg"); break;
  case MIR_DNEG: ENS (SAMEF (out.d, -in.d), "dneg"); break;
  case MIR_LDNEG: ENS (SAMEF (out.ld, -in.ld), "ldneg"); break;
  case MIR_I2F: ENS (out.f == (float) in.i, "i2f converts the signed 64-bit value"); break;
  case MIR_I2D: ENS (out.d == (double) in.i, "i2d converts the signed 64-bit value"); break;
  case MIR_I2LD: ENS (out.ld == (long double) in.i, "i2ld converts the signed 64-bit value"); break;
  case MIR_UI2F: ENS (out.f == (float) in.u, "ui2f converts the unsigned 64-bit value"); break;
  case MIR_UI2D: ENS (out.d == (double) in.u, "ui2d converts the unsigned 64-bit value"); break;
  case MIR_UI2LD: ENS (out.ld == (long double) in.u, "ui2ld converts the unsigned 64-bit value"); break;
  case MIR_F2D: ENS (SAMEF (out.d, (double) in.f), "f2d"); break;
  case MIR_D2F: ENS (SAMEF (out.f, (float) in.d), "d2f"); break;
  case MIR_F2LD: ENS (SAMEF (out.ld, (long double) in.f), "f2ld"); break;
  case MIR_D2LD: ENS (SAMEF (out.ld, (long double) in.d), "d2ld"); break;
  case MIR_LD2F: ENS (SAMEF (out.f, (float) in.ld), "ld2f"); break;
  case MIR_LD2D: ENS (SAMEF (out.d, (double) in.ld), "ld2d"); break;
  case MIR_F2I: ENS (out.i == (int64_t) in.f, "f2i truncates toward zero"); break;
  case MIR_D2I: ENS (out.i == (int64_t) in.d, "d2i truncates toward zero"); break;
  default: ENS (out.i == (int64_t) in.ld, "ld2i truncates toward zero"); break;
  }
  REACH ("end");
}

/* narrow loads and stores: the interpreter lowers a memory move of MIR type t to the internal
   code get_int_mem_insn_code (load_p, t) (real function, called here), then eval executes it. */
static unsigned char vp_buf[24];
static void run_load (const int t) {
  vp_setup ();
  for (int i = 0; i < 24; i++) vp_buf[i] = (unsigned char) nondet_int ();
  int code = get_int_mem_insn_code (TRUE, t);
  PICK_REGS (d, s1, s2);
  vp_bp[s1].a = &vp_buf[8];
  C[0].ic = code; C[1].i = d; C[2].i = s1;
  C[3].ic = MIR_RET; C[4].i = 1; C[5].i = d;
  eval (&vp_ctx, vp_fd, vp_bp, vp_res);
  ENS (vp_res[0].u == sem_load_int (t == MIR_T_P ? MIR_T_U64 : t, &vp_buf[8]),
       "narrow load is sign/zero extended to 64 bits according to its type");
  if (t == MIR_T_I8) REACH ("i8");
  if (t == MIR_T_U32) REACH ("u32");
  REACH ("end");
}
static void run_store (const int t) {
  vp_setup ();
  unsigned char before[24];
  for (int i = 0; i < 24; i++) before[i] = vp_buf[i] = (unsigned char) nondet_int ();
  int code = get_int_mem_insn_code (FALSE, t);
  vp_bp[1].a = &vp_buf[8];
  uint64_t v = vp_bp[2].u;
  C[0].ic = code; C[1].i = 2; C[2].i = 1;
  C[3].ic = MIR_RET; C[4].i = 1; C[5].i = 2;
  eval (&vp_ctx, vp_fd, vp_bp, vp_res);
  int n = sem_type_size (t == MIR_T_P ? MIR_T_U64 : t);
  int k = nondet_int ();
  __CPROVER_assume (k >= 0 && k < 24);
  if (k >= 8 && k < 8 + n)
    ENS (vp_buf[k] == (unsigned char) (v >> (8 * (k - 8))), "store writes the low bytes of the value (truncation)");
  else
    ENS (vp_buf[k] == before[k], "store leaves the bytes outside the accessed width untouched");
  ENS (vp_res[0].u == v, "store leaves the source register unchanged");
  if (n == 1) REACH ("byte"); if (n == 8) REACH ("quad");
  REACH ("end");
}
static void run_fpmem (const int code) {
  vp_setup ();
  static MIR_val_t cell[2];
  cell[0].u = nondet_u64 ();
  vp_bp[1].a = &cell[0];
  MIR_val_t in = vp_bp[2], m = cell[0];
  C[0].ic = code; C[1].i = 2; C[2].i = 1;
  C[3].ic = MIR_RET; C[4].i = 1; C[5].i = 2;
  eval (&vp_ctx, vp_fd, vp_bp, vp_res);
  switch (code) {
  case IC_LDF: ENS (SAMEF (vp_res[0].f, m.f), "float load"); break;
  case IC_LDD: ENS (SAMEF (vp_res[0].d, m.d), "double load"); break;
  case IC_LDLD: ENS (SAMEF (vp_res[0].ld, m.ld), "long double load"); break;
  case IC_STF: ENS (SAMEF (cell[0].f, in.f), "float store"); break;
  case IC_STD: ENS (SAMEF (cell[0].d, in.d), "double store"); break;
  default: ENS (SAMEF (cell[0].ld, in.ld), "long double store"); break;
  }
  REACH ("end");
}

/* link-time branch reversal (simplify_func rewrites 'bcc L1; jmp L2; L1:' with the reversed branch):
   the reversed opcode must be taken exactly when the original is not, for all operand values; opcodes
   with no exact complement (FP compares: NaN) must not be reversed at all. */
void h_reverse_branch (void) {
  int code = nondet_int ();
  uint64_t a = nondet_u64 (), b = nondet_u64 ();
  __CPROVER_assume (code >= 0 && code < MIR_INSN_BOUND);
  MIR_insn_code_t r = MIR_reverse_branch_code ((MIR_insn_code_t) code);
  int t = sem_branch (code, a, b);
  if (t >= 0) {
    ENS (r != MIR_INSN_BOUND ==> sem_branch (r, a, b) == !t, "reversed integer branch is taken exactly when the original is not");
    REACH ("integer branch");
  } else if (sem_fp_rel (code) >= 0) {
    ENS (r == MIR_INSN_BOUND, "floating point branches/compares have no exact complement (NaN) and are not reversed");
    REACH ("fp");
  } else if (code == MIR_BO || code == MIR_BNO || code == MIR_UBO || code == MIR_UBNO) {
    ENS (r == (code == MIR_BO ? MIR_BNO : code == MIR_BNO ? MIR_BO : code == MIR_UBO ? MIR_UBNO : MIR_UBO), "overflow branch reversal keeps the flag kind");
  }
  REACH ("end");
}

/* link-time algebraic shortcut (simplify_func replaces 'op r, x, imm' by 'mov r, x'): the stager copies
   the guarding condition of that rewrite out of simplify_func into vp_shortcut_p (staging op slice_cond). */
#ifdef VP_SHORTCUT
static int vp_shortcut_p (MIR_insn_code_t code, MIR_insn_t insn);
static struct { struct MIR_insn insn; MIR_op_t more[3]; } vp_sc;
void h_shortcut (void) {
  int code = nondet_int ();
  uint64_t a = nondet_u64 ();
  __CPROVER_assume (code >= 0 && code < MIR_INSN_BOUND);
  vp_sc.insn.code = code;
  vp_sc.insn.ops[2].mode = (MIR_op_mode_t) nondet_int ();
  vp_sc.insn.ops[2].u.i = (int64_t) nondet_u64 ();
  if (vp_shortcut_p ((MIR_insn_code_t) code, &vp_sc.insn)) {
    sem_int_t s = sem_int3 (code, a, (uint64_t) vp_sc.insn.ops[2].u.i);
    ENS (vp_sc.insn.ops[2].mode == MIR_OP_INT, "shortcut applies to an integer immediate only");
    ENS (s.defined && sem_agree (s, a), "an insn rewritten to a move computes its first source operand for every value");
    ENS (!sem_ovf (code, 0, 0).s_def && !sem_ovf (code, 0, 0).u_def,
         "an insn that sets the overflow flag is not replaced by a move (a following BO/BNO reads the flag)");
    REACH ("shortcut taken");
  }
  REACH ("end");
}
#endif

/* ---- entry points: one per opcode (the list is generated by checks/c02.py into the define VP_ENTRIES) */
#define E1(fn, a) void h_##fn##_##a (void) { run_##fn (a); }
#define E2(fn, a, b) void h_##fn##_##a##_##b (void) { run_##fn (a, b); }
#define E4(fn, a, b, c, d) void h_##fn##_##a##_##b##_##c##_##d (void) { run_##fn (a, b, c, d); }
#include "harness/c02_entries.inc"
