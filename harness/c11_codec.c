/* C11 (scalar token codec): write_int/uint/float/double/ldouble followed by the REAL reader read_token /
   read_int / read_uint through a ghost byte queue: the decoded value is bit-identical, the reader
   consumes exactly what the writer produced, and the bytes written depend only on the value.
   Compression is taken out (-DMIR_NO_BIN_COMPRESSION: the source's own switch); it is C12's subject. */
#define MIR_NO_BIN_COMPRESSION 1
#include "mir.c"
#include "models/error.h"
#define REACH(msg) __CPROVER_assert (0, "VP_REACH: " msg)
#define ENS(c, msg) __CPROVER_assert (c, "postcondition: " msg)
static void vp_on_error (int code) { (void) code; __CPROVER_assert (0, "postcondition: the reader does not report an error on the writer's own output"); }
static uint8_t Q[2][24];
static int qw[2], qr, cur;
static int vp_w (MIR_context_t ctx, uint8_t b) { (void) ctx; __CPROVER_assert (qw[cur] < 24, "ghost queue capacity"); Q[cur][qw[cur]++] = b; return b; }
static int vp_r (MIR_context_t ctx) { (void) ctx; return qr < qw[0] ? Q[0][qr++] : EOF; }
static size_t vp_writer (const void *s, size_t l, void *a) { (void) s; (void) a; return l; }
static struct MIR_context vp_ctx;
static struct io_ctx vp_io;
static MIR_context_t setup (void) {
  MIR_context_t ctx = &vp_ctx;
  ctx->io_ctx = &vp_io;
  error_func = (MIR_error_func_t) vp_error_func;
  io_writer = vp_w; io_reader = vp_r;
  return ctx;
}
int nondet_int (void);
#define SAME_BYTES do { int k = nondet_int (); __CPROVER_assume (k >= 0 && k < 24); ENS (qw[0] == qw[1] && (k >= qw[0] || Q[0][k] == Q[1][k]), "the bytes written are a function of the value only (writing twice gives identical bytes)"); } while (0)
int64_t nondet_i64 (void); uint64_t nondet_u64 (void); float nondet_float (void); double nondet_double (void); long double nondet_ldouble (void);
void h_int (void) {
  MIR_context_t ctx = setup (); int64_t v = nondet_i64 (); token_attr_t a;
  cur = 0; size_t n = write_int (ctx, vp_writer, v); cur = 1; write_int (ctx, vp_writer, v);
  bin_tag_t t = read_token (ctx, &a);
  ENS (t >= TAG_I1 && t <= TAG_I8 && a.i == v, "integer immediate is read back bit for bit (negative and 64-bit values included)");
  ENS (qr == qw[0] && n == (size_t) qw[0], "the reader consumes exactly the bytes the writer produced"); SAME_BYTES;
  qr = 0; ENS (read_int (ctx, "x") == v, "read_int inverts write_int");
  if (v < 0) REACH ("negative"); REACH ("end");
}
void h_uint (void) {
  MIR_context_t ctx = setup (); uint64_t v = nondet_u64 (); token_attr_t a;
  cur = 0; size_t n = write_uint (ctx, vp_writer, v); cur = 1; write_uint (ctx, vp_writer, v);
  bin_tag_t t = read_token (ctx, &a);
  ENS ((t == TAG_U0 || (t >= TAG_U1 && t <= TAG_U8)) && a.u == v, "unsigned immediate is read back bit for bit");
  ENS (qr == qw[0] && n == (size_t) qw[0], "the reader consumes exactly the bytes the writer produced"); SAME_BYTES;
  qr = 0; ENS (read_uint (ctx, "x") == v, "read_uint inverts write_uint");
  if (v <= 127) REACH ("short form"); REACH ("end");
}
void h_float (void) {
  MIR_context_t ctx = setup (); union { float f; uint32_t u; } v, r; v.u = (uint32_t) nondet_u64 (); token_attr_t a;
  cur = 0; write_float (ctx, vp_writer, v.f); cur = 1; write_float (ctx, vp_writer, v.f);
  bin_tag_t t = read_token (ctx, &a); r.f = a.f;
  ENS (t == TAG_F && r.u == v.u, "float immediate is read back bit for bit (NaN payloads included)");
  ENS (qr == qw[0], "the reader consumes exactly the bytes the writer produced"); SAME_BYTES; REACH ("end");
}
void h_double (void) {
  MIR_context_t ctx = setup (); union { double d; uint64_t u; } v, r; v.u = nondet_u64 (); token_attr_t a;
  cur = 0; write_double (ctx, vp_writer, v.d); cur = 1; write_double (ctx, vp_writer, v.d);
  bin_tag_t t = read_token (ctx, &a); r.d = a.d;
  ENS (t == TAG_D && r.u == v.u, "double immediate is read back bit for bit (NaN payloads included)");
  ENS (qr == qw[0], "the reader consumes exactly the bytes the writer produced"); SAME_BYTES; REACH ("end");
}
void h_ldouble (void) {
  /* x86-64 long double: 80 value bits in a 16-byte object; the 6 padding bytes are unspecified (C11 6.2.6.1p6),
     so "writing the same value twice" is modelled as writing two objects that agree on the value bytes only */
  MIR_context_t ctx = setup (); token_attr_t a;
  union { long double ld; unsigned char b[16]; } v, w;
  for (int k = 0; k < 16; k++) { v.b[k] = (unsigned char) nondet_int (); w.b[k] = (unsigned char) nondet_int (); }
  for (int k = 0; k < 10; k++) __CPROVER_assume (v.b[k] == w.b[k]);
  cur = 0; write_ldouble (ctx, vp_writer, v.ld); cur = 1; write_ldouble (ctx, vp_writer, w.ld);
  bin_tag_t t = read_token (ctx, &a);
  unsigned char *br = (unsigned char *) &a.ld; int j = nondet_int (); __CPROVER_assume (j >= 0 && j < 10);
  ENS (t == TAG_LD && v.b[j] == br[j], "long double immediate is read back bit for bit (all 80 bits)");
  ENS (qr == qw[0], "the reader consumes exactly the bytes the writer produced"); SAME_BYTES; REACH ("end");
}
