/* C09: operator precedence of the `#if` expression parser.  Every precedence level of the recursive-descent parser
   is the function pre_left_op (left-associative loop "next (op next)*") instantiated with the level's operator
   tokens and the next tighter level.  With pre_left_op replaced by a recording model (staging op rename_def), each
   REAL level function must pass exactly the tokens and the next level that the C11 6.5 / 6.6 grammar gives it:
     logical-OR || > logical-AND && > inclusive-OR | > exclusive-OR ^ > AND & > equality > relational > shift
     > additive > multiplicative > unary. */
#include "c2mir/c2mir.c"
#define REACH(msg) __CPROVER_assert (0, "VP_REACH: " msg)
#define ENS(c, msg) __CPROVER_assert (c, "postcondition: " msg)
typedef node_t (*vp_level_t) (c2m_ctx_t);
static int vp_tok, vp_tok2; static vp_level_t vp_next; static unsigned vp_calls;
static node_t vp_model_pre_left_op (c2m_ctx_t c2m_ctx, int token, int token2, node_t (*f) (c2m_ctx_t c2m_ctx)) {
  (void) c2m_ctx; vp_calls++; vp_tok = token; vp_tok2 = token2; vp_next = f;
  return NULL;
}
static struct c2m_ctx vp_c2m;
#define LEVEL(fn, t1, t2, nxt, what) do { vp_calls = 0; (void) fn (&vp_c2m); \
    ENS (vp_calls == 1 && ((vp_tok == (t1) && vp_tok2 == (t2)) || (vp_tok == (t2) && vp_tok2 == (t1))) && vp_next == nxt, what); } while (0)
void h_pp_levels (void) {
  LEVEL (pre_lor_expr, T_OROR, -1, pre_land_expr, "|| binds weaker than &&");
  LEVEL (pre_land_expr, T_ANDAND, -1, pre_or_expr, "&& binds weaker than |");
  LEVEL (pre_or_expr, '|', -1, pre_xor_expr, "| binds weaker than ^");
  LEVEL (pre_xor_expr, '^', -1, pre_and_expr, "^ binds weaker than &");
  LEVEL (pre_and_expr, '&', -1, pre_eq_expr, "& binds weaker than == and !=");
  LEVEL (pre_eq_expr, T_EQNE, -1, pre_rel_expr, "== and != bind weaker than the relational operators");
  LEVEL (pre_rel_expr, T_CMP, -1, pre_sh_expr, "relational operators bind weaker than shifts");
  LEVEL (pre_sh_expr, T_SH, -1, pre_add_expr, "shifts bind weaker than + and -");
  LEVEL (pre_add_expr, T_ADDOP, -1, pre_mul_expr, "+ and - bind weaker than * / %");
  LEVEL (pre_mul_expr, T_DIVOP, '*', pre_unary_expr, "* / % take unary expressions as operands");
  REACH ("end");
}
