/* C12: the compression layer (mir-reduce.h).  Staged with the capacity macro _REDUCE_BUF_LEN
   substituted by 1 << VP_K (CBMC cannot build the 2.3 MB struct reduce_data); everything else is the
   real text.  Streams are unbounded: every reader call returns arbitrary data of arbitrary length. */
#include <stdint.h>
#include <stddef.h>
#define VP_GHOST_T uint8_t
#define VP_MEMCPY_NO_HAVOC 1 /* buf lives inside struct reduce_data: never havoc the whole object */
#include "models/alloc.h"
#include "models/libc.h"
/* ghost record of the stored-hash read (see contracts/reduce.h); declared here so that the loop
   contract inside reduce_decode_get can name it */
uint64_t vp_last_str2hash;
unsigned vp_str2hash_calls;
#include "mir-reduce.h"

#define REACH(msg) __CPROVER_assert (0, "VP_REACH: " msg)
size_t nondet_size (void);
uint8_t nondet_u8 (void);
#define GHOST vp_G = nondet_size ()

/* Trusted model of the user's reader callback: may deliver any number r <= len of arbitrary bytes.
   The destination must be writable for len bytes (that is the obligation on the decoder). */
size_t vp_reader_calls;
static size_t vp_reader (void *start, size_t len, void *aux) {
  (void) aux;
  __CPROVER_assert (len == 0 || __CPROVER_w_ok (start, len), "reader: destination writable for len bytes");
  size_t r = nondet_size ();
  __CPROVER_assume (r <= len);
  if (len <= 8) {
    for (size_t k = 0; k < 8; k++)
      if (k < r) ((uint8_t *) start)[k] = nondet_u8 ();
  } else if (vp_G < r) {
    ((uint8_t *) start)[vp_G] = nondet_u8 (); /* ghost byte idiom */
  }
  return r;
}
static size_t vp_writer (const void *start, size_t len, void *aux) {
  (void) aux;
  __CPROVER_assert (len == 0 || __CPROVER_r_ok (start, len), "writer: source readable for len bytes");
  size_t r = nondet_size ();
  __CPROVER_assume (r <= len);
  return r;
}
reduce_reader_t vp_keep_reader = vp_reader;
reduce_writer_t vp_keep_writer = vp_writer;
void *(*vp_keep_realloc) (void *, size_t, size_t, void *) = vp_realloc;
#include "contracts/reduce.h"

void h_decode_get (void) {
  GHOST;
  struct reduce_data *d;
  int r = reduce_decode_get (d);
  if (r < 0) REACH ("refused or end"); else REACH ("byte delivered");
}
void h_uint_read (void) {
  GHOST;
  int64_t r = _reduce_uint_read (vp_reader, NULL);
  if (r < 0) REACH ("failed"); else REACH ("value");
}
void h_decode_start (void) {
  GHOST;
  MIR_alloc_t a; void *aux;
  struct reduce_data *d = reduce_decode_start (a, vp_reader, aux);
  REACH ("end");
}
void h_decode_finish (void) {
  GHOST;
  MIR_alloc_t a; struct reduce_data *d;
  int r = reduce_decode_finish (a, d);
  if (r) REACH ("ok"); else REACH ("failed");
}
void h_output_byte (void) { GHOST; struct reduce_data *d; uint32_t pos; _reduce_output_byte (d, pos); REACH ("end"); }
void h_symb_flush (void) { GHOST; struct reduce_data *d; int t; int r = _reduce_symb_flush (d, t); if (r) REACH ("flushed"); else REACH ("nothing"); }
