/* C14 (bounded): the REAL load_bss_data_section on a run of up to 3 data items of symbolic kind
   (bss / data / ref / lref / expr), symbolic named/anonymous flag and symbolic lengths: one contiguous
   block of exactly the summed size (rounded up to 8), every item at the offset given by its predecessors,
   bss bytes zero and data bytes copied (ghost byte vp_G), load addresses set, and the returned item is the
   last one of the section.  The allocator model returns a block of exactly the requested size, so an
   under-counted section shows up as an out-of-bounds write. */
#include <stdint.h>
#include <stddef.h>
#define VP_GHOST_T uint8_t
#define VP_MEMCPY_NO_HAVOC 1 /* all items share one block: never havoc it as a whole */
size_t vp_G;
#include "models/alloc_concrete.h"
#include "models/libc.h"
#include "mir.c"
#include "models/error.h"
#ifndef VP_NITEMS
#define VP_NITEMS 3
#endif
#define REACH(msg) __CPROVER_assert (0, "VP_REACH: " msg)
#define ENS(c, msg) __CPROVER_assert (c, "postcondition: " msg)
int nondet_int (void);
size_t nondet_size (void);
static void vp_on_error (int code) { (void) code; __CPROVER_assert (0, "postcondition: no error on well-formed data items"); }
static struct MIR_context vp_ctx;
static struct MIR_item it[3], vp_fitem;
static struct MIR_func vp_f; static MIR_type_t vp_rt[1];
static struct { struct MIR_bss bss; struct MIR_ref_data ref; struct MIR_lref_data lref; struct MIR_expr_data expr;
                struct { struct MIR_data d; uint8_t more[32]; } data; } pl[3];
static const char vp_nm[] = "n";
static size_t sz[3];
static int kind[3], named[3];
static size_t type_size (MIR_type_t t) { /* MIR.md: size of the element types */
  return (t == MIR_T_I8 || t == MIR_T_U8) ? 1 : (t == MIR_T_I16 || t == MIR_T_U16) ? 2
         : (t == MIR_T_I32 || t == MIR_T_U32 || t == MIR_T_F) ? 4 : t == MIR_T_LD ? 16 : 8;
}
void h_load_section (void) {
  MIR_context_t ctx = &vp_ctx;
  vp_G = nondet_size ();
  ctx->alloc = &vp_alloc;
  error_func = (MIR_error_func_t) vp_error_func;
  int n = nondet_int ();
  __CPROVER_assume (n >= 1 && n <= VP_NITEMS);
  static DLIST (MIR_item_t) list;
  DLIST_INIT (MIR_item_t, list);
  vp_f.name = vp_nm; vp_f.expr_p = 1; vp_f.nres = 1; vp_f.res_types = vp_rt; vp_fitem.item_type = MIR_func_item; vp_fitem.u.func = &vp_f;
  int trt = nondet_int (); __CPROVER_assume (trt >= MIR_T_I8 && trt <= MIR_T_P && trt != MIR_T_BLK); vp_rt[0] = (MIR_type_t) trt;
  for (int k = 0; k < 3; k++) {
    if (k >= n) break;
    kind[k] = nondet_int (); named[k] = nondet_int () != 0;
    __CPROVER_assume (kind[k] >= 0 && kind[k] <= 4);
    it[k].addr = NULL; it[k].section_head_p = 0;
    const char *nm = named[k] ? vp_nm : NULL;
    if (kind[k] == 0) { it[k].item_type = MIR_bss_item; it[k].u.bss = &pl[k].bss; pl[k].bss.name = nm; pl[k].bss.len = nondet_size (); __CPROVER_assume (pl[k].bss.len <= 24); sz[k] = pl[k].bss.len; }
    else if (kind[k] == 1) { it[k].item_type = MIR_data_item; it[k].u.data = &pl[k].data.d; pl[k].data.d.name = nm; int t = nondet_int (); __CPROVER_assume (t >= MIR_T_I8 && t <= MIR_T_P && t != MIR_T_BLK);
      pl[k].data.d.el_type = (MIR_type_t) t; pl[k].data.d.nel = nondet_size (); __CPROVER_assume (pl[k].data.d.nel * type_size ((MIR_type_t) t) <= 32); sz[k] = pl[k].data.d.nel * type_size ((MIR_type_t) t); }
    else if (kind[k] == 2) { it[k].item_type = MIR_ref_data_item; it[k].u.ref_data = &pl[k].ref; pl[k].ref.name = nm; sz[k] = 8; }
    else if (kind[k] == 3) { it[k].item_type = MIR_lref_data_item; it[k].u.lref_data = &pl[k].lref; pl[k].lref.name = nm; sz[k] = 8; }
    else { it[k].item_type = MIR_expr_data_item; it[k].u.expr_data = &pl[k].expr; pl[k].expr.name = nm; pl[k].expr.expr_item = &vp_fitem; sz[k] = type_size (vp_rt[0]); }
    DLIST_APPEND (MIR_item_t, list, &it[k]);
  }
  /* the section: item 0 and the anonymous items that directly follow it */
  int m = 1; if (n >= 2 && !named[1]) { m = 2; if (n >= 3 && !named[2]) m = 3; }
  size_t total = 0, off[3];
  for (int k = 0; k < 3; k++) { if (k >= m) break; off[k] = total; total += sz[k]; }
  MIR_item_t last = load_bss_data_section (ctx, &it[0], FALSE);
  ENS (last == &it[m - 1], "the returned item is the last item of the section (a named item starts a new one)");
  ENS (it[0].addr != NULL && it[0].section_head_p, "the first item heads an allocated section");
  ENS (__CPROVER_OBJECT_SIZE (it[0].addr) == (total + 7) / 8 * 8 && __CPROVER_POINTER_OFFSET (it[0].addr) == 0, "the section block has exactly the summed size of its items, rounded up to 8");
  for (int k = 0; k < 3; k++) { /* k is concrete in every unrolled copy */
    if (k >= m) { if (k < n) ENS (it[k].addr == NULL, "an item outside the section is not placed"); continue; }
    ENS ((uint8_t *) it[k].addr == (uint8_t *) it[0].addr + off[k], "every item sits at the offset given by the sizes of its predecessors (no gaps, declaration order)");
#ifndef VP_NO_GHOST_COPY
    if (kind[k] == 0 && vp_G < sz[k]) ENS (((uint8_t *) it[k].addr)[vp_G] == 0, "bss bytes are zero");
    if (kind[k] == 1 && vp_G < sz[k]) ENS (((uint8_t *) it[k].addr)[vp_G] == ((uint8_t *) &pl[k].data)[offsetof (struct MIR_data, u) + vp_G], "data holds the declared bytes");
#endif
    if (kind[k] == 2) ENS (pl[k].ref.load_addr == it[k].addr, "ref item records where its value is to be stored");
    if (kind[k] == 3) ENS (pl[k].lref.load_addr == it[k].addr, "lref item records where its value is to be stored");
    if (kind[k] == 4) ENS (pl[k].expr.load_addr == it[k].addr, "expr item records where its value is to be stored");
  }
  if (m == 3) REACH ("three items"); if (m < n) REACH ("named item ends the section"); REACH ("end");
}
#include "contracts/data.h"
void h_type_size (void) { MIR_type_t t; size_t r = _MIR_type_size (&vp_ctx, t); REACH ("end"); }
