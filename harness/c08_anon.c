/* C08: offsets of the members of anonymous structs/unions.  The REAL update_members_offset (c2mir.c) on an anonymous
   aggregate T0 { A; <static assert>; B: anonymous aggregate T1 { C } } with symbolic member offsets: after the call
   every member, at every nesting level, carries its offset relative to the enclosing named aggregate (or 0 when the
   offsets are being reset).  Bounded in shape (two nesting levels, 2 + 1 members), symbolic in all offsets. */
#include "c2mir/c2mir.c"
#define REACH(msg) __CPROVER_assert (0, "VP_REACH: " msg)
#define ENS(c, msg) __CPROVER_assert (c, "postcondition: " msg)
int nondet_int (void);
mir_size_t nondet_msize (void);
static struct node tag0, id0, list0, memA, sa, memB, tag1, id1, list1, memC;
static struct decl dA, dB, dC;
static struct type T0, T1, TB;
static void mk_tag (node_t tag, node_t id, node_t list) {
  tag->code = N_STRUCT; DLIST_INIT (node_t, tag->u.ops); id->code = N_IGNORE; list->code = N_LIST; DLIST_INIT (node_t, list->u.ops);
  DLIST_APPEND (node_t, tag->u.ops, id); DLIST_APPEND (node_t, tag->u.ops, list);
}
void h_members_offset (void) {
  mk_tag (&tag0, &id0, &list0); mk_tag (&tag1, &id1, &list1);
  TB.mode = TM_BASIC; TB.u.basic_type = TP_INT; TB.unnamed_anon_struct_union_member_type_p = FALSE;
  T0.mode = nondet_int () ? TM_STRUCT : TM_UNION; T0.unnamed_anon_struct_union_member_type_p = TRUE; T0.u.tag_type = &tag0;
  T1.mode = nondet_int () ? TM_STRUCT : TM_UNION; T1.unnamed_anon_struct_union_member_type_p = TRUE; T1.u.tag_type = &tag1;
  memA.code = N_MEMBER; memA.attr = &dA; sa.code = N_ST_ASSERT; sa.attr = NULL; memB.code = N_MEMBER; memB.attr = &dB; memC.code = N_MEMBER; memC.attr = &dC;
  DLIST_APPEND (node_t, list0.u.ops, &memA); DLIST_APPEND (node_t, list0.u.ops, &sa); DLIST_APPEND (node_t, list0.u.ops, &memB);
  DLIST_APPEND (node_t, list1.u.ops, &memC);
  dA.decl_spec.type = &TB; dB.decl_spec.type = &T1; dC.decl_spec.type = &TB;
  mir_size_t a = nondet_msize (), b = nondet_msize (), c = nondet_msize (), off = nondet_msize ();
  int reset = nondet_int () != 0;
  __CPROVER_assume (a < (1u << 20) && b < (1u << 20) && c < (1u << 20) && off < (1u << 20));
  dA.offset = a; dB.offset = b; dC.offset = c;
  if (reset) { off = MIR_SIZE_MAX; T0.raw_size = T1.raw_size = MIR_SIZE_MAX; } else { T0.raw_size = T1.raw_size = 8; }
  update_members_offset (&T0, off);
  if (reset) {
    ENS (dA.offset == 0 && dB.offset == 0 && dC.offset == 0, "a reset clears the offsets at every nesting level");
    REACH ("reset");
  } else {
    ENS (dA.offset == a + off && dB.offset == b + off, "a member of an anonymous aggregate is placed relative to the enclosing aggregate");
    ENS (dC.offset == c + b + off, "a member of a nested anonymous aggregate is placed relative to the outermost enclosing aggregate");
    REACH ("shift");
  }
  REACH ("end");
}
