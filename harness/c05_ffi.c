/* C05: the key of the interpreter's FFI-interface cache.  Two call sites share a trampoline only when
   ff_interface_eq says their interfaces are equal, so "equal" must imply: same number of results, of arguments
   and of fixed arguments, same result types, and for EVERY argument (variadic tail included) the same type
   and, for block types, the same size.  Unbounded in the number of arguments/results (loop contract + ghost
   indices vp_G for results, vp_H for arguments). */
#include <stdint.h>
#include <stddef.h>
#define VP_GHOST_T uint32_t /* MIR_type_t elements for memcmp's ghost element */
#include "models/alloc.h"
#include "models/libc.h"
size_t vp_H; /* ghost argument index (declared before the code: the loop invariant names it) */
#include "mir.c"
#define REACH(msg) __CPROVER_assert (0, "VP_REACH: " msg)
#define ENS(c, msg) __CPROVER_assert (c, "postcondition: " msg)
size_t nondet_size (void);
void h_ffi_eq (void) {
  _Static_assert (sizeof (MIR_type_t) == sizeof (VP_GHOST_T), "ghost element type");
  vp_G = nondet_size (); vp_H = nondet_size ();
  struct ff_interface a, b;
  a.nres = nondet_size (); a.nargs = nondet_size (); a.arg_vars_num = nondet_size ();
  b.nres = nondet_size (); b.nargs = nondet_size (); b.arg_vars_num = nondet_size ();
#ifdef VP_SMALL
  __CPROVER_assume (a.nres <= 3 && b.nres <= 3 && a.nargs <= 3 && b.nargs <= 3);
#endif
  __CPROVER_assume (a.nres <= (1u << 20) && b.nres <= (1u << 20) && a.nargs <= (1u << 20) && b.nargs <= (1u << 20));
  a.res_types = malloc (a.nres * sizeof (MIR_type_t)); b.res_types = malloc (b.nres * sizeof (MIR_type_t));
  a.arg_descs = malloc (a.nargs * sizeof (_MIR_arg_desc_t)); b.arg_descs = malloc (b.nargs * sizeof (_MIR_arg_desc_t));
  a.interface_addr = b.interface_addr = NULL;
  int r = ff_interface_eq (&a, &b, NULL);
  if (r) {
    ENS (a.nres == b.nres && a.nargs == b.nargs && a.arg_vars_num == b.arg_vars_num, "equal interfaces have the same arity and the same number of fixed arguments");
    if (vp_G < a.nres) ENS (a.res_types[vp_G] == b.res_types[vp_G], "equal interfaces have the same result types");
    if (vp_H < a.nargs) {
      ENS (a.arg_descs[vp_H].type == b.arg_descs[vp_H].type, "equal interfaces have the same type for every argument, variadic tail included");
      if (a.arg_descs[vp_H].type >= MIR_T_BLK && a.arg_descs[vp_H].type <= MIR_T_RBLK)
        ENS (a.arg_descs[vp_H].size == b.arg_descs[vp_H].size, "equal interfaces have the same size for every block argument");
      if (vp_H >= a.arg_vars_num) REACH ("variadic argument compared");
    }
    REACH ("equal");
  } else
    REACH ("different");
}
