/* C08: struct member placement through the REAL update_field_layout (driven exactly as set_type_layout
   drives it for a struct) against the psABI placement rule, and the eightbyte class merge
   get_result_type.  Member count is bounded (3); member types and bit widths are symbolic. */
#include "c2mir/c2mir.c"
#include "spec/sysv.h"
#define REACH(msg) __CPROVER_assert (0, "VP_REACH: " msg)
#define ENS(c, msg) __CPROVER_assert (c, "postcondition: " msg)
int nondet_int (void);
#include "contracts/abi.h"

static void run_layout3 (const int zero_width_too) {
  int bf_p = FALSE, bits = -1, bound_bit = 0;
  mir_size_t overall_size = 0, offset = 0, prev_size = 0;
  sysv_layout_t ref = {0};
  int any_bf = 0;
  for (int k = 0; k < 3; k++) {
    int lg = nondet_int (), w = nondet_int (), bfm = nondet_int ();
    __CPROVER_assume (lg >= 0 && lg <= 3);
    mir_size_t S = (mir_size_t) 1 << lg; /* char, short, int, long */
    if (bfm) __CPROVER_assume (w >= (zero_width_too ? 0 : 1) && w <= (int) (8 * S)); else w = -1;
    bits = w;
    update_field_layout (&bf_p, &overall_size, &offset, &bound_bit, prev_size, S, (int) S, bits);
    prev_size = S;
    mir_size_t decl_offset = offset;
    int bit_offset = bits < 0 ? -1 : bound_bit - bits;
    if (bits == 0) bf_p = FALSE;
    uint64_t exp = sysv_place (&ref, S, S, w);
    if (w != 0) {
      ENS (decl_offset % S == 0, "member storage unit is aligned to its type");
      ENS (decl_offset * 8 + (w < 0 ? 0 : (uint64_t) bit_offset) == exp, "member sits at the bit position the psABI gives it");
      if (w > 0) ENS (bit_offset >= 0 && (uint64_t) bit_offset + (uint64_t) w <= 8 * S, "bit-field is contained in one storage unit of its type");
      ENS (overall_size >= decl_offset + S, "struct size covers the member's storage unit");
    }
    if (w >= 0) any_bf = 1;
  }
  if (any_bf) REACH ("with bit-fields"); else REACH ("regular members only");
  REACH ("end");
}
void h_layout3 (void) { run_layout3 (0); }
void h_layout3_zero_width (void) { run_layout3 (1); }
void h_get_result_type (void) { MIR_type_t a, b; MIR_type_t r = get_result_type (a, b); REACH ("end"); }
