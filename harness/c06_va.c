/* C06 (va builtins): va_arg_builtin / va_block_arg_builtin of /repo/mir-x86_64.c against the x86-64
   psABI va_arg algorithm (section 3.5.7).  mir-x86_64.c is included the way mir.c includes it. */
#include <stdint.h>
#include <stddef.h>
#define VP_GHOST_T uint8_t
#include "models/libc.h"
size_t vp_G;
#include "mir.c"
#define REACH(msg) __CPROVER_assert (0, "VP_REACH: " msg)
size_t nondet_size (void);
#define GHOST vp_G = nondet_size ()
#include "contracts/va.h"
void h_va_arg (void) { GHOST; void *p; uint64_t t; void *r = va_arg_builtin (p, t); REACH ("end"); }
void h_va_block_arg (void) { GHOST; void *res, *p; size_t s; uint64_t n; va_block_arg_builtin (res, p, s, n); REACH ("end"); }
