/* C09: the `##` operator of macro replacement (C11 6.10.3.3).  The REAL do_concat of c2mir.c on the token sequence
     L  A [sp] ## [sp] B  R
   where A and B are each an ordinary token or a placemarker (an empty macro argument), the spaces are optional, and
   L, R are ordinary neighbour tokens.  Ignoring white space, the result must be  L X R  with X = nothing when both
   operands are placemarkers, the other operand when one is, and the pasted token otherwise; the neighbours L and R
   survive and no ## or placemarker is left.  token_concat and new_token are models (fresh designated tokens). */
#include "c2mir/c2mir.c"
#define REACH(msg) __CPROVER_assert (0, "VP_REACH: " msg)
#define ENS(c, msg) __CPROVER_assert (c, "postcondition: " msg)
int nondet_int (void);
static struct token tL, tR, tA, tB, tS1, tS2, tDD, tCat, tNew;
static unsigned vp_cat_calls;
static token_t vp_model_token_concat (c2m_ctx_t c2m_ctx, token_t t1, token_t t2) {
  (void) c2m_ctx; vp_cat_calls++;
  __CPROVER_assert (t1 == &tA && t2 == &tB, "postcondition: the operands of ## are pasted, left then right");
  return &tCat;
}
static token_t vp_model_new_token (c2m_ctx_t c2m_ctx, pos_t pos, const char *repr, int token_code, node_code_t node_code) {
  (void) c2m_ctx; (void) pos; (void) repr; (void) node_code;
  tNew.code = token_code; return &tNew;
}
/* exact memmove for the few pointers moved here */
void *memmove (void *d, const void *s, size_t n) {
  token_t tmp[8];
  __CPROVER_assert (n % sizeof (token_t) == 0 && n <= sizeof tmp, "model: memmove of at most 8 tokens");
  for (size_t k = 0; k < 8; k++) if (k < n / sizeof (token_t)) tmp[k] = ((token_t *) s)[k];
  for (size_t k = 0; k < 8; k++) if (k < n / sizeof (token_t)) ((token_t *) d)[k] = tmp[k];
  return d;
}
static struct c2m_ctx vp_c2m; static token_t vp_arr[8]; static VARR (token_t) vp_toks;
void h_concat (void) {
  int a_plm = nondet_int () != 0, b_plm = nondet_int () != 0, s1 = nondet_int () != 0, s2 = nondet_int () != 0;
  tL.code = T_ID; tR.code = T_ID; tA.code = a_plm ? T_PLM : T_ID; tB.code = b_plm ? T_PLM : T_ID; tS1.code = ' '; tS2.code = ' '; tDD.code = T_RDBLNO;
  tCat.code = T_ID;
  size_t n = 0;
  vp_arr[n++] = &tL; vp_arr[n++] = &tA; if (s1) vp_arr[n++] = &tS1; vp_arr[n++] = &tDD; if (s2) vp_arr[n++] = &tS2; vp_arr[n++] = &tB; vp_arr[n++] = &tR;
  vp_toks.els_num = n; vp_toks.size = 8; vp_toks.varr = vp_arr;
  VARR (token_t) *r = do_concat (&vp_c2m, &vp_toks);
  ENS (r == &vp_toks, "the sequence is rewritten in place");
  /* the result with white space ignored */
  token_t seq[8]; size_t m = 0;
  for (size_t k = 0; k < 8; k++) if (k < VARR_LENGTH (token_t, r) && vp_arr[k]->code != ' ') seq[m++] = vp_arr[k];
  size_t want = 2 + (a_plm && b_plm ? 0 : 1);
  ENS (m == want, "## yields one token, or none when both operands are empty arguments; nothing else disappears");
  ENS (m >= 1 && seq[0] == &tL, "the token before the left operand survives");
  ENS (m >= 2 && seq[m - 1] == &tR, "the token after the right operand survives");
  if (m == 3) ENS (seq[1] == (a_plm ? &tB : b_plm ? &tA : &tCat), "an empty argument pastes to the other operand, two tokens paste to their concatenation");
  ENS (vp_cat_calls == (!a_plm && !b_plm ? 1u : 0u), "tokens are pasted only when both operands are present");
  if (a_plm && b_plm) REACH ("both empty"); if (s1 && s2) REACH ("spaces around ##");
  REACH ("end");
}
