/* C19 HTAB rebuild (bounded): as c19_htab.c, but the element array is FULL (els_bound == 2) and the operation is an
   INSERT or REPLACE, so the real HTAB_do grows and rebuilds the table (recursive re-insertion) before it probes.
   Original header: the REAL HTAB_do on a table of 2 element slots / 4 index entries in an arbitrary
   well-formed state (0..2 live elements, tombstones, any hash function values), one operation with a
   symbolic key and action.  Checked against the abstract map: result and returned element, size
   accounting, free function called exactly once and with the STORED element when one is dropped,
   never otherwise, other keys untouched.  No rebuild (insert into a full element array is excluded). */
#include <stdint.h>
#include <stddef.h>
#include "models/alloc_concrete.h"
#include "mir-htab.h"
typedef struct { int key; int id; } *el_t; /* equality is on key; id distinguishes equal-key objects */
DEF_HTAB (el_t);
#define REACH(msg) __CPROVER_assert (0, "VP_REACH: " msg)
#define ENS(c, msg) __CPROVER_assert (c, "postcondition: " msg)
int nondet_int (void);
unsigned nondet_uint (void);
static struct { int key; int id; } obj[3]; /* obj[0], obj[1]: may be stored; obj[2]: the probe */
static unsigned hv[4]; /* hash value per key (keys 0..3), arbitrary but fixed during the call */
static htab_hash_t hash_f (el_t e, void *arg) { (void) arg; return hv[e->key & 3]; }
static int eq_f (el_t a, el_t b, void *arg) { (void) arg; return a->key == b->key; }
static int freed[3];
static void free_f (el_t e, void *arg) { (void) arg; for (int i = 0; i < 3; i++) if (e == (el_t) &obj[i]) freed[i]++; }
static HTAB (el_t) tab;
static VARR (HTAB_EL (el_t)) els_v;
static VARR (htab_ind_t) ent_v;
static HTAB_EL (el_t) *els;
static htab_ind_t *ent;
/* the probe sequence of HTAB_do for hash h in a table of 4 entries, step k */
static unsigned probe (unsigned h, int k) { unsigned ind = h & 3, p = h; for (int i = 0; i < k; i++) { p >>= 11; ind = (5 * ind + p + 1) & 3; } return ind; }
void h_htab_rebuild (void) {
  els = malloc (2 * sizeof (HTAB_EL (el_t))); ent = malloc (4 * sizeof (htab_ind_t)); /* heap: the rebuild reallocates both arrays */
  for (int i = 0; i < 4; i++) hv[i] = nondet_uint ();
  for (int i = 0; i < 3; i++) { obj[i].key = nondet_int () & 3; obj[i].id = i; }
  __CPROVER_assume (obj[0].key != obj[1].key);
  int nlive = nondet_int ();
  __CPROVER_assume (nlive >= 0 && nlive <= 2);
  int bound = nondet_int ();
  __CPROVER_assume (bound == 2); /* full element array */
  /* element array: slots < bound are live or deleted */
  int live0 = nlive >= 1, live1 = nlive == 2 || (nlive == 1 && 0);
  if (nlive == 1) { live0 = nondet_int () & 1; live1 = !live0; if (bound == 1) { live0 = 1; live1 = 0; } }
  for (int i = 0; i < 4; i++) ent[i] = HTAB_EMPTY_IND;
  for (int s = 0; s < 2; s++) {
    int live = s == 0 ? live0 : live1;
    els[s].el = (el_t) &obj[s];
    unsigned h = hv[obj[s].key]; if (h == HTAB_DELETED_HASH) h += 1;
    els[s].hash = (s < bound && live) ? h : HTAB_DELETED_HASH;
    if (s < bound && live) { /* place it at the first free entry of its probe sequence, tombstones may precede */
      int placed = 0;
      for (int k = 0; k < 4 && !placed; k++) {
        unsigned ind = probe (h, k);
        if (ent[ind] == HTAB_EMPTY_IND) { if (nondet_int () & 1) ent[ind] = HTAB_DELETED_IND; else { ent[ind] = s; placed = 1; } }
      }
      __CPROVER_assume (placed);
    }
  }
  int empties = 0; for (int i = 0; i < 4; i++) empties += ent[i] == HTAB_EMPTY_IND;
  __CPROVER_assume (empties >= 1); /* open addressing keeps at least one empty entry (load factor 1/2 + rebuild) */
  els_v.els_num = els_v.size = 2; els_v.varr = els; els_v.alloc = &vp_alloc;
  ent_v.els_num = ent_v.size = 4; ent_v.varr = ent; ent_v.alloc = &vp_alloc;
  tab.els = &els_v; tab.entries = &ent_v; tab.els_num = nlive; tab.els_start = 0; tab.els_bound = bound; tab.collisions = 0;
  tab.hash_func = hash_f; tab.eq_func = eq_f; tab.free_func = (nondet_int () & 1) ? free_f : NULL; tab.arg = NULL;
  int action = nondet_int ();
  __CPROVER_assume (action == HTAB_INSERT || action == HTAB_REPLACE); /* with a full element array: rebuild */
  el_t probe_el = (el_t) &obj[2], res = NULL;
  /* abstract map before */
  int present = (live0 && 0 < bound && obj[0].key == obj[2].key) ? 0 : (live1 && 1 < bound && obj[1].key == obj[2].key) ? 1 : -1;
  int r = HTAB_DO (el_t, &tab, probe_el, action, res);
  ENS ((r != 0) == (present >= 0), "the result says whether an equal element was in the table");
  if (action == HTAB_FIND) {
    ENS (present < 0 || res == (el_t) &obj[present], "find returns the stored element");
    ENS (tab.els_num == (htab_size_t) nlive && !freed[0] && !freed[1] && !freed[2], "find changes nothing");
  } else if (action == HTAB_INSERT) {
    ENS (res == (present >= 0 ? (el_t) &obj[present] : probe_el), "insert returns the stored element, or stores the new one");
    ENS (tab.els_num == (htab_size_t) (nlive + (present < 0)) && !freed[0] && !freed[1] && !freed[2], "insert adds at most one element and frees nothing");
  } else if (action == HTAB_REPLACE) {
    ENS (res == probe_el && tab.els_num == (htab_size_t) (nlive + (present < 0)), "replace stores the new element");
    ENS (present < 0 || tab.free_func == NULL ? (!freed[0] && !freed[1] && !freed[2]) : (freed[present] == 1 && freed[1 - present] == 0 && freed[2] == 0),
         "replace calls the free function exactly once, on the element it drops");
  } else {
    ENS (tab.els_num == (htab_size_t) (nlive - (present >= 0)), "delete removes exactly the equal element");
    ENS (present < 0 || tab.free_func == NULL ? (!freed[0] && !freed[1] && !freed[2]) : (freed[present] == 1 && freed[1 - present] == 0 && freed[2] == 0),
         "delete calls the free function exactly once, on the STORED element (not on the lookup key)");
  }
  /* every other stored element is still found afterwards, as the same object */
  for (int s2 = 0; s2 < 2; s2++) {
    int was_live = s2 == 0 ? live0 : live1;
    if (was_live && obj[s2].key != obj[2].key) {
      el_t res2 = NULL;
      int r2 = HTAB_DO (el_t, &tab, (el_t) &obj[s2], HTAB_FIND, res2);
      ENS (r2 != 0 && res2 == (el_t) &obj[s2], "an element with a different key survives the rebuild");
      REACH ("other element checked");
    }
  }
  ENS (!freed[2] && (present >= 0 || (!freed[0] && !freed[1])), "the rebuild frees no element that stays in the table");
  ENS (VARR_LENGTH (htab_ind_t, tab.entries) == 8 && VARR_LENGTH (HTAB_EL (el_t), tab.els) == 4, "a full table doubles");
  ENS (tab.els_bound <= 3 && tab.els_start == 0, "the rebuilt element array is compacted");
  if (present >= 0) REACH ("present"); else REACH ("absent");
  REACH ("end");
}
