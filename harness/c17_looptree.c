/* C17 (no leak of the loop tree): in generate_func_code the loop tree used by the register allocator is built under
   one condition on the optimization level and destroyed under another, far apart in a 200-line function.  Both
   conditions are copied verbatim out of the REAL function by staging op slice_cond; they must agree for every
   optimization level (otherwise the tree leaks at some level, or a tree that was never built is destroyed). */
#include <stdint.h>
#include <stddef.h>
#include "mir-gen.c"
#define REACH(msg) __CPROVER_assert (0, "VP_REACH: " msg)
#define ENS(c, msg) __CPROVER_assert (c, "postcondition: " msg)
unsigned nondet_uint (void);
static int vp_cond_build (gen_ctx_t gen_ctx); static int vp_cond_destroy (gen_ctx_t gen_ctx);
static struct gen_ctx vp_gen;
void h_looptree_pairing (void) {
  gen_ctx_t gen_ctx = &vp_gen;
  optimize_level = nondet_uint ();
  int b = vp_cond_build (gen_ctx) != 0, d = vp_cond_destroy (gen_ctx) != 0;
  ENS (b == d, "the loop tree built before register allocation is destroyed at exactly the optimization levels at which it is built");
  if (b) REACH ("built"); else REACH ("not built");
  REACH ("end");
}
