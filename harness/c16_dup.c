/* C16 (bounded in program size): the REAL _MIR_duplicate_func_insns / _MIR_restore_func_insns of mir.c on a
   function of NI <= 3 instructions  [ L: label ; i1 ; i2 ]  where i1/i2 are taken from { LADDR r,L ; BT L,r ;
   JMP L ; SWITCH r,L,L ; MOV r,imm } by the job (concrete opcodes, symbolic operands) and the function owns one
   label-reference data item (label2 NULL or L).
   duplicate: the working list is a copy, instruction by instruction, whose label operands (and the lref) point
   to the copied label; the originals are kept untouched, in order, in original_insns; label->data is reset.
   restore (after arbitrary generator-like edits: a removed insn, an appended insn, new registers): the function
   has exactly its original instruction objects in order, the original lref labels, and the original variables. */
#include <stdint.h>
#include <stddef.h>
#include <stdlib.h>
#include <string.h>
#include "mir.c"
#include "models/error.h"
#define REACH(msg) __CPROVER_assert (0, "VP_REACH: " msg)
#define ENS(c, msg) __CPROVER_assert (c, "postcondition: " msg)
int nondet_int (void);
size_t nondet_size (void);
int64_t nondet_i64 (void);
static void vp_on_error (int code) { (void) code; __CPROVER_assert (0, "postcondition: no error is raised"); }
#ifndef K1
#define K1 0
#define K2 1
#endif
#ifndef NI
#define NI 3 /* label + NI-1 instructions */
#endif
/* storage with room for 3 operands (ops[k>0] lies outside the declared type of struct MIR_insn) */
/* Staging op widen_tail declares struct MIR_insn's trailing array as ops[3] (CBMC cannot index the C89 struct hack
   ops[1] past its bound), so sizeof (struct MIR_insn) already covers 3 operands and the code's size computation
   sizeof (struct MIR_insn) + sizeof (MIR_op_t) * (nops - 1) asks for up to 2 operands more: every instruction
   object here has that room. */
struct big_insn { struct MIR_insn i; MIR_op_t room[2]; };
struct mid_insn { struct MIR_insn i; MIR_op_t room[1]; };
static struct big_insn vp_st[NI];
/* allocator model: instruction-sized requests are served from a typed pool of fresh, distinct blocks (untyped heap
   objects accessed through struct MIR_insn make CBMC's byte-level encoding explode); free of a pool block is
   recorded and checked (a live pool block, once); every other request goes to CBMC's malloc */
#define NPOOL 5
static struct big_insn vp_pool[NPOOL]; static unsigned vp_pool_next; static int vp_pool_freed[NPOOL];
static void *vp_malloc (size_t n, void *ud) {
  (void) ud;
  if (n == sizeof (struct MIR_insn) || n == sizeof (struct mid_insn) || n == sizeof (struct big_insn)) {
    __CPROVER_assert (vp_pool_next < NPOOL, "model: instruction pool large enough for the bounded scenario");
    __CPROVER_assume (vp_pool_next < NPOOL);
    return &vp_pool[vp_pool_next++].i;
  }
  return malloc (n);
}
static void *vp_calloc (size_t n, size_t s, void *ud) { (void) ud; return calloc (n, s); }
static void *vp_realloc (void *p, size_t o, size_t n, void *ud) { (void) ud; (void) o; return realloc (p, n); }
static void vp_free (void *p, void *ud) {
  (void) ud;
  for (unsigned k = 0; k < NPOOL; k++)
    if (p == (void *) &vp_pool[k]) {
      __CPROVER_assert (k < vp_pool_next && !vp_pool_freed[k], "allocator: free of a live block, once");
      vp_pool_freed[k] = 1;
      return;
    }
  for (unsigned k = 0; k < NI; k++) __CPROVER_assert (p != (void *) &vp_st[k], "allocator: an original instruction is never freed");
  free (p);
}
struct MIR_alloc vp_alloc = {vp_malloc, vp_calloc, vp_realloc, vp_free, NULL};
/* exact memcpy for the three instruction sizes that occur here, as typed copies */
void *memcpy (void *d, const void *s, size_t n) {
  if (n == sizeof (struct MIR_insn)) *(struct MIR_insn *) d = *(const struct MIR_insn *) s;
  else if (n == sizeof (struct mid_insn)) *(struct mid_insn *) d = *(const struct mid_insn *) s;
  else if (n == sizeof (struct big_insn)) *(struct big_insn *) d = *(const struct big_insn *) s;
  else __CPROVER_assert (0, "model: memcpy of one instruction of at most 3 operands");
  return d;
}
static struct MIR_context vp_ctx; static struct MIR_item vp_fi; static struct MIR_func vp_f;
static struct MIR_lref_data vp_lref;
static MIR_var_t vp_vars_a[6]; static VARR (MIR_var_t) vp_vars, vp_gvars;
static struct func_regs vp_fr; static reg_desc_t vp_rds[8]; static VARR (reg_desc_t) vp_rdv;
static char vp_names[6][2];
/* models of the register tables: lookup by name gives the descriptor with that name; deletions are recorded */
static unsigned vp_del_name, vp_del_reg; static size_t vp_del_sum_name, vp_del_sum_reg;
static reg_desc_t *vp_model_find_rd_by_name (MIR_context_t ctx, const char *name, MIR_func_t func) {
  (void) ctx; (void) func;
  for (int k = 0; k < 6; k++) if (name == vp_names[k]) return &vp_rds[k + 1];
  return NULL;
}
static int vp_model_HTAB_size_t_do (HTAB (size_t) * htab, size_t el, enum htab_action action, size_t *res) {
  __CPROVER_assert (action == HTAB_DELETE, "model: only deletions are expected here");
  if (htab == vp_fr.name2rdn_tab) { vp_del_name++; vp_del_sum_name += el; } else if (htab == vp_fr.reg2rdn_tab) { vp_del_reg++; vp_del_sum_reg += el; }
  else __CPROVER_assert (0, "model: unexpected table");
  *res = el;
  return 1;
}
static HTAB (size_t) vp_t1, vp_t2;
static MIR_insn_t mk (int k, int kind, MIR_insn_t lab) {
  MIR_insn_t i = &vp_st[k].i;
  i->data = NULL;
  MIR_op_t r; r.mode = MIR_OP_REG; r.data = NULL; r.u.reg = (MIR_reg_t) nondet_int (); r.value_mode = MIR_OP_INT;
  MIR_op_t l; l.mode = MIR_OP_LABEL; l.data = NULL; l.u.label = lab; l.value_mode = MIR_OP_UNDEF;
  MIR_op_t c; c.mode = MIR_OP_INT; c.data = NULL; c.u.i = nondet_i64 (); c.value_mode = MIR_OP_INT;
  switch (kind) {
  case 0: i->code = MIR_LADDR; i->nops = 2; i->ops[0] = r; i->ops[1] = l; break;
  case 1: i->code = MIR_BT; i->nops = 2; i->ops[0] = l; i->ops[1] = r; break;
  case 2: i->code = MIR_JMP; i->nops = 1; i->ops[0] = l; break;
  case 3: i->code = MIR_SWITCH; i->nops = 3; i->ops[0] = r; i->ops[1] = l; i->ops[2] = l; break;
  case 4: i->code = MIR_MOV; i->nops = 2; i->ops[0] = r; i->ops[1] = c; break;
  default: i->code = MIR_LABEL; i->nops = 0; i->ops[0] = c; break;
  }
  return i;
}
static int op_same (MIR_op_t *a, MIR_op_t *b) { /* same non-label operand */
  return a->mode == b->mode && a->value_mode == b->value_mode && a->data == b->data
         && (a->mode == MIR_OP_REG ? a->u.reg == b->u.reg : a->mode == MIR_OP_INT ? a->u.i == b->u.i : 1);
}
static int unchanged (int k, struct big_insn *sn) { /* everything but the list links */
  MIR_insn_t i = &vp_st[k].i, o = &sn->i;
  if (i->data != NULL || i->code != o->code || i->nops != o->nops) return 0;
  for (unsigned n = 0; n < 3; n++) {
    if (n >= o->nops && !(n == 0 && o->code == MIR_LABEL)) break;
    if (o->ops[n].mode == MIR_OP_LABEL ? !(i->ops[n].mode == MIR_OP_LABEL && i->ops[n].u.label == o->ops[n].u.label) : !op_same (&i->ops[n], &o->ops[n])) return 0;
  }
  return 1;
}
void h_dup_restore (void) {
  MIR_context_t ctx = &vp_ctx;
  ctx->alloc = &vp_alloc; error_func = (MIR_error_func_t) vp_error_func;
  static const int kinds[3] = {5, K1, K2};
  MIR_insn_t old[NI], L = &vp_st[0].i;
  vp_fi.item_type = MIR_func_item; vp_fi.u.func = &vp_f; vp_fi.data = NULL;
  DLIST_INIT (MIR_insn_t, vp_f.insns); DLIST_INIT (MIR_insn_t, vp_f.original_insns);
  for (int k = 0; k < NI; k++) { old[k] = mk (k, kinds[k], L); DLIST_APPEND (MIR_insn_t, vp_f.insns, old[k]); }
  struct big_insn snap[NI];
  for (int k = 0; k < NI; k++) snap[k] = vp_st[k];
  /* variables: nv declared ones; optional global-variable array */
  size_t nv = nondet_size (); __CPROVER_assume (nv <= 4);
  vp_vars.els_num = nv; vp_vars.size = 6; vp_vars.varr = vp_vars_a; vp_vars.alloc = &vp_alloc; vp_f.vars = &vp_vars;
  for (int k = 0; k < 6; k++) { vp_vars_a[k].name = vp_names[k]; vp_vars_a[k].type = MIR_T_I64; vp_rds[k + 1].name = vp_names[k]; }
  int glob = nondet_int () != 0;
  vp_gvars.els_num = nondet_size (); vp_gvars.size = 8; __CPROVER_assume (vp_gvars.els_num <= 8);
  vp_f.global_vars = glob ? &vp_gvars : NULL;
  vp_rdv.els_num = 7; vp_rdv.size = 8; vp_rdv.varr = vp_rds; vp_rdv.alloc = &vp_alloc;
  vp_fr.reg_descs = &vp_rdv; vp_fr.name2rdn_tab = &vp_t1; vp_fr.reg2rdn_tab = &vp_t2; vp_f.internal = &vp_fr;
  /* one label reference owned by the function */
  int two = nondet_int () != 0;
  vp_lref.label = L; vp_lref.label2 = two ? L : NULL; vp_lref.orig_label = vp_lref.orig_label2 = NULL; vp_lref.next = NULL;
  vp_f.first_lref = nondet_int () ? &vp_lref : NULL;

#ifndef VP_RESTORE_ONLY
  _MIR_duplicate_func_insns (ctx, &vp_fi);

  MIR_insn_t nw[NI], p = DLIST_HEAD (MIR_insn_t, vp_f.insns), q = DLIST_HEAD (MIR_insn_t, vp_f.original_insns);
  for (int k = 0; k < NI; k++) {
    ENS (p != NULL && q == old[k], "the original instructions are kept, in order, as original_insns");
    nw[k] = p; p = DLIST_NEXT (MIR_insn_t, p); q = DLIST_NEXT (MIR_insn_t, q);
  }
  ENS (p == NULL && q == NULL, "the working list has as many instructions as the original");
  ENS (vp_f.original_vars_num == nv, "the number of the function's own variables is recorded");
  for (int k = 0; k < NI; k++) {
    for (int m = 0; m < NI; m++) ENS (nw[k] != old[m], "working instructions are fresh objects");
    ENS (nw[k]->code == old[k]->code && nw[k]->nops == old[k]->nops, "a copy has the opcode and operand count of its original");
    for (unsigned n = 0; n < 3; n++) {
      if (n >= old[k]->nops) break;
      if (old[k]->ops[n].mode == MIR_OP_LABEL) ENS (nw[k]->ops[n].mode == MIR_OP_LABEL && nw[k]->ops[n].u.label == nw[0], "a label operand of a copy refers to the copied label");
      else ENS (op_same (&nw[k]->ops[n], &old[k]->ops[n]), "a non-label operand is copied unchanged");
    }
    ENS (unchanged (k, &snap[k]), "duplication leaves the original instruction untouched (data reset to NULL)");
  }
  if (vp_f.first_lref != NULL) {
    ENS (vp_lref.orig_label == L && vp_lref.orig_label2 == (two ? L : NULL), "the lref's original labels are saved");
    ENS (vp_lref.label == nw[0] && vp_lref.label2 == (two ? nw[0] : NULL), "the lref refers to the copied label while the generator works");
  }
  REACH ("end");
#else
  /* requires: the state _MIR_duplicate_func_insns establishes (its postconditions are the obligations of the
     duplicate job), after arbitrary work of the generator on the working copy: the working list holds 0..2
     instructions of arbitrary contents from the allocator, the lref points anywhere */
  vp_f.original_vars_num = nv; vp_f.original_insns = vp_f.insns; DLIST_INIT (MIR_insn_t, vp_f.insns);
  size_t nwork = nondet_size (); __CPROVER_assume (nwork <= 2);
  for (size_t k = 0; k < 2; k++) if (k < nwork) { MIR_insn_t w = MIR_malloc (ctx->alloc, sizeof (struct big_insn)); w->code = (MIR_insn_code_t) nondet_int (); DLIST_APPEND (MIR_insn_t, vp_f.insns, w); }
  vp_lref.orig_label = L; vp_lref.orig_label2 = two ? L : NULL;
  vp_lref.label = nondet_int () ? DLIST_HEAD (MIR_insn_t, vp_f.insns) : NULL; vp_lref.label2 = nondet_int () ? DLIST_TAIL (MIR_insn_t, vp_f.insns) : NULL;
  MIR_insn_t p;
  size_t added = nondet_size (); __CPROVER_assume (added <= 2 && nv + added <= 6);
  vp_vars.els_num = nv + added; /* new registers: names vp_names[nv..], descriptors vp_rds[nv+1..] */

  _MIR_restore_func_insns (ctx, &vp_fi);

  p = DLIST_HEAD (MIR_insn_t, vp_f.insns);
  for (int k = 0; k < NI; k++) {
    ENS (p == old[k], "after generation the function has exactly its original instructions, in order");
    p = DLIST_NEXT (MIR_insn_t, p);
    ENS (unchanged (k, &snap[k]), "the original instructions are what they were");
  }
  ENS (p == NULL && DLIST_HEAD (MIR_insn_t, vp_f.original_insns) == NULL, "no saved copy is left behind");
  ENS (VARR_LENGTH (MIR_var_t, vp_f.vars) == nv, "registers created by the generator are removed from the variables");
  ENS (vp_del_name == added && vp_del_reg == added, "each generator-created register is removed from both register tables");
  ENS (vp_del_sum_name == (added == 0 ? 0 : added == 1 ? nv + 1 : 2 * nv + 3) && vp_del_sum_reg == vp_del_sum_name, "the removed table entries are those of the generator-created registers");
  if (vp_f.first_lref != NULL) {
    ENS (vp_lref.label == L && vp_lref.label2 == (two ? L : NULL), "the lref refers to the original labels again");
    ENS (vp_lref.orig_label == NULL && vp_lref.orig_label2 == NULL, "no stale saved label");
    if (two) REACH ("two-label lref");
  }
  if (glob) REACH ("global variables"); if (added == 2) REACH ("two new registers");
  ENS (vp_pool_next == nwork && (nwork < 1 || vp_pool_freed[0]) && (nwork < 2 || vp_pool_freed[1]), "every instruction of the working copy is released");
  REACH ("end");
#endif
}
