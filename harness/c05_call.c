/* C05 (interpreter marshalling only): the REAL call() of mir-interp.c with a prototype of up to 3 arguments
   (symbolic types, optional variadic tail) and up to 2 results: every argument slot handed to the FFI
   trampoline holds the value narrowed/extended as the prototype type prescribes (variadic tail verbatim),
   every result is widened per its type, argument descriptors of a new call site follow the prototype and the
   operand modes, and all scratch-array accesses stay inside the arrays.  The trampoline (machine code) and the
   interface cache (hash table) are models. */
#include <stdint.h>
#include <stddef.h>
#include "models/alloc.h"
#include "mir.c"
#include "models/error.h"
#define REACH(msg) __CPROVER_assert (0, "VP_REACH: " msg)
#define ENS(c, msg) __CPROVER_assert (c, "postcondition: " msg)
int nondet_int (void);
size_t nondet_size (void);
MIR_val_t nondet_val (void);
static void vp_on_error (int code) { __CPROVER_assert (code == MIR_call_op_error, "postcondition: only the documented call error is raised"); }
static struct MIR_context vp_ctx;
static struct interp_ctx vp_ictx;
#ifndef MAXA
#define MAXA 3 /* largest number of arguments in this build of the harness */
#endif
static MIR_val_t vp_seen_args[MAXA], vp_results[2];
static size_t vp_nres_g, vp_nargs_g;
static unsigned vp_tramp_calls;
static void *vp_addr_seen;
/* FFI trampoline model: records what the callee would receive, delivers arbitrary results */
static void vp_tramp (void *addr, void *res_args) {
  MIR_val_t *a = res_args;
  vp_tramp_calls++; vp_addr_seen = addr;
  for (size_t k = 0; k < MAXA; k++) if (k < vp_nargs_g) vp_seen_args[k] = a[vp_nres_g + k];
  for (size_t k = 0; k < 2; k++) if (k < vp_nres_g) a[k] = vp_results[k];
}
static _MIR_arg_desc_t vp_descs_seen[MAXA];
static size_t vp_ffi_calls;
static void *vp_model_get_ff_interface (MIR_context_t ctx, size_t arg_vars_num, size_t nres, MIR_type_t *res_types, size_t nargs,
                                        _MIR_arg_desc_t *arg_descs, int vararg_p) {
  (void) ctx; (void) arg_vars_num; (void) nres; (void) res_types; (void) vararg_p;
  vp_ffi_calls++;
  for (size_t k = 0; k < MAXA; k++) if (k < nargs) vp_descs_seen[k] = arg_descs[k];
  return (void *) vp_tramp;
}
void (*vp_keep_tramp) (void *, void *) = vp_tramp;
static uint64_t narrow (MIR_type_t t, MIR_val_t v) { /* C ABI: the value of the prototype type, extended to 64 bits */
  switch (t) {
  case MIR_T_I8: return (uint64_t) (int64_t) (int8_t) v.i;
  case MIR_T_U8: return (uint8_t) v.i;
  case MIR_T_I16: return (uint64_t) (int64_t) (int16_t) v.i;
  case MIR_T_U16: return (uint16_t) v.i;
  case MIR_T_I32: return (uint64_t) (int64_t) (int32_t) v.i;
  case MIR_T_U32: return (uint32_t) v.i;
  default: return v.u;
  }
}
static MIR_var_t vp_vars[MAXA]; static VARR (MIR_var_t) vp_args_v;
static struct MIR_proto vp_proto; static struct MIR_item vp_pitem; static MIR_type_t vp_rtypes[2];
static MIR_op_t vp_ops[MAXA]; static MIR_val_t vp_bp[6], vp_ffi_cell, vp_res_ops[2], vp_argvals[MAXA + 1];
static void run_call (size_t nargs, size_t nres) {
  MIR_context_t ctx = &vp_ctx;
  struct interp_ctx *interp_ctx = &vp_ictx;
  ctx->interp_ctx = interp_ctx; ctx->alloc = &vp_alloc; error_func = (MIR_error_func_t) vp_error_func;
  size_t nfixed = nondet_size ();
  __CPROVER_assume (nfixed <= nargs);
  int vararg = nfixed < nargs;
  for (int k = 0; k < MAXA; k++) { int t = nondet_int (); __CPROVER_assume (t >= MIR_T_I8 && t <= MIR_T_P && t != MIR_T_BLK); vp_vars[k].type = (MIR_type_t) t; vp_argvals[k] = nondet_val ();
    int m = nondet_int (); __CPROVER_assume (m == MIR_OP_INT || m == MIR_OP_UINT || m == MIR_OP_DOUBLE || m == MIR_OP_LDOUBLE); vp_ops[k].mode = MIR_OP_REG; vp_ops[k].value_mode = (MIR_op_mode_t) m; }
  for (int k = 0; k < 2; k++) { int t = nondet_int (); __CPROVER_assume (t >= MIR_T_I8 && t <= MIR_T_P && t != MIR_T_BLK); vp_rtypes[k] = (MIR_type_t) t; vp_results[k] = nondet_val (); vp_res_ops[k].i = 4 + k; }
  vp_args_v.els_num = nfixed; vp_args_v.size = MAXA; vp_args_v.varr = vp_vars;
  vp_proto.args = &vp_args_v; vp_proto.nres = (uint32_t) nres; vp_proto.res_types = vp_rtypes; vp_proto.vararg_p = vararg; vp_proto.name = "p";
  vp_pitem.item_type = MIR_proto_item; vp_pitem.u.proto = &vp_proto;
  /* scratch arrays of the interpreter context: any capacity >= 1, as VARR_CREATE leaves them */
  size_t c1 = nondet_size (), c2 = nondet_size ();
  __CPROVER_assume (c1 >= 1 && c1 <= 8 && c2 >= 1 && c2 <= 8);
  static VARR (MIR_val_t) v1; static VARR (_MIR_arg_desc_t) v2;
  v1.els_num = 0; v1.size = c1; v1.varr = malloc (c1 * sizeof (MIR_val_t)); v1.alloc = &vp_alloc;
  v2.els_num = 0; v2.size = c2; v2.varr = malloc (c2 * sizeof (_MIR_arg_desc_t)); v2.alloc = &vp_alloc;
  call_res_args_varr = &v1; call_arg_descs_varr = &v2; call_res_args = v1.varr; call_arg_descs = v2.varr;
  arg_vals = vp_argvals;
  int cached = nondet_int () != 0;
  vp_ffi_cell.a = cached ? (void *) vp_tramp : NULL;
  vp_nres_g = nres; vp_nargs_g = nargs;
  void *callee = (void *) (size_t) 0x1234;
  call (ctx, vp_bp, vp_ops, &vp_ffi_cell, &vp_pitem, callee, vp_res_ops, nargs);
  ENS (vp_tramp_calls == 1 && vp_addr_seen == callee, "the native function is called once through the trampoline");
  ENS (vp_ffi_cell.a == (void *) vp_tramp && vp_ffi_calls == (cached ? 0 : 1), "the call site caches its interface");
  for (size_t g = 0; g < MAXA; g++) {
    if (g >= nargs) break;
    if (g < nfixed) {
      MIR_type_t t = vp_vars[g].type;
      if (t == MIR_T_F) ENS (vp_seen_args[g].f == vp_argvals[g].f || (vp_seen_args[g].f != vp_seen_args[g].f && vp_argvals[g].f != vp_argvals[g].f), "float argument is passed unchanged");
      else if (t == MIR_T_D) ENS (vp_seen_args[g].d == vp_argvals[g].d || (vp_seen_args[g].d != vp_seen_args[g].d && vp_argvals[g].d != vp_argvals[g].d), "double argument is passed unchanged");
      else if (t == MIR_T_LD) ENS (vp_seen_args[g].ld == vp_argvals[g].ld || (vp_seen_args[g].ld != vp_seen_args[g].ld && vp_argvals[g].ld != vp_argvals[g].ld), "long double argument is passed unchanged");
      else ENS (vp_seen_args[g].u == narrow (t, vp_argvals[g]), "integer argument is narrowed to its prototype type and extended as the C ABI prescribes");
      if (!cached) ENS (vp_descs_seen[g].type == t, "argument descriptor of a fixed argument is its prototype type");
    } else {
      ENS (vp_seen_args[g].u == vp_argvals[g].u, "a variadic argument is passed verbatim");
      if (!cached) ENS (vp_descs_seen[g].type == (vp_ops[g].value_mode == MIR_OP_DOUBLE ? MIR_T_D : vp_ops[g].value_mode == MIR_OP_LDOUBLE ? MIR_T_LD : MIR_T_I64),
                        "argument descriptor of a variadic argument follows the operand's value mode");
    }
  }
  for (size_t g = 0; g < 2; g++) {
    if (g >= nres) break;
    MIR_type_t t = vp_rtypes[g]; MIR_val_t r = vp_bp[4 + g], s = vp_results[g];
    if (t == MIR_T_F) ENS (r.f == s.f || (r.f != r.f && s.f != s.f), "float result is delivered unchanged");
    else if (t == MIR_T_D) ENS (r.d == s.d || (r.d != r.d && s.d != s.d), "double result is delivered unchanged");
    else if (t == MIR_T_LD) ENS (r.ld == s.ld || (r.ld != r.ld && s.ld != s.ld), "long double result is delivered unchanged");
    else ENS (r.u == narrow (t, s), "integer result is extended according to its declared type");
  }
  if (vararg) REACH ("variadic"); if (nres == 2) REACH ("two results"); if (!cached) REACH ("new call site");
  REACH ("end");
}
/* one entry per arity: indices into the scratch arrays are then concrete (the split between fixed and variadic
   arguments, all types, values, capacities and the cache state stay symbolic) */
#define E(n, r) void h_call_##n##_##r (void) { run_call (n, r); }
E (0, 0) E (0, 1) E (0, 2) E (1, 0) E (1, 1) E (1, 2) E (2, 0) E (2, 1) E (2, 2) E (3, 0) E (3, 1) E (3, 2)
#if MAXA >= 5
E (4, 1) E (5, 0) E (5, 2)
#endif
