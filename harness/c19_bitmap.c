/* C19 bitmap harnesses: every entry calls one real function of /repo/mir-bitmap.h under its
   contract (contracts/bitmap.h); the requires clause builds the state. */
#define VP_GHOST_T uint64_t
#include "models/alloc.h"
#include "models/libc.h"
/* prototypes so that the loop invariant of bitmap_op2/op3 can name the element operations,
   which mir-bitmap.h defines only after bitmap_op2 */
static inline uint64_t bitmap_el_and (uint64_t, uint64_t);
static inline uint64_t bitmap_el_and_compl (uint64_t, uint64_t);
static inline uint64_t bitmap_el_ior (uint64_t, uint64_t);
static inline uint64_t bitmap_el_ior_and (uint64_t, uint64_t, uint64_t);
static inline uint64_t bitmap_el_ior_and_compl (uint64_t, uint64_t, uint64_t);
#include "mir-bitmap.h"
#include "contracts/bitmap.h"
#ifdef VP_EXPAND_MODEL
#include "models/bitmap_expand.h"
#endif

/* keep every callback reachable for function-pointer removal */
void *(*vp_keep_realloc) (void *, size_t, size_t, void *) = vp_realloc;
bitmap_el_t (*vp_keep_op2[]) (bitmap_el_t, bitmap_el_t) = {bitmap_el_and, bitmap_el_and_compl, bitmap_el_ior};
bitmap_el_t (*vp_keep_op3[]) (bitmap_el_t, bitmap_el_t, bitmap_el_t) = {bitmap_el_ior_and, bitmap_el_ior_and_compl};

#define REACH(msg) __CPROVER_assert (0, "VP_REACH: " msg)
size_t nondet_size (void);
/* file-scope objects are zero-initialised by CBMC: the ghost index must be made arbitrary */
#define GHOST vp_G = nondet_size ()

void h_expand (void) { GHOST; bitmap_t bm; size_t nb; bitmap_expand (bm, nb); REACH ("end"); }
void h_bit_p (void) { GHOST; bitmap_t bm; size_t nb; int r = bitmap_bit_p (bm, nb); if (r) REACH ("member"); REACH ("end"); }
void h_set_bit_p (void) { GHOST; bitmap_t bm; size_t nb; int r = bitmap_set_bit_p (bm, nb); if (!r) REACH ("already set"); REACH ("end"); }
void h_clear_bit_p (void) { GHOST; bitmap_t bm; size_t nb; int r = bitmap_clear_bit_p (bm, nb); if (r) REACH ("was set"); REACH ("end"); }
void h_range_p (void) { GHOST;
  bitmap_t bm; size_t nb, len; int set_p;
  int r = bitmap_set_or_clear_bit_range_p (bm, nb, len, set_p);
  if (r && set_p) REACH ("set changed"); if (r && !set_p) REACH ("clear changed"); if (!r) REACH ("unchanged");
}
void h_copy (void) { GHOST; bitmap_t d, s; bitmap_copy (d, s); REACH ("end"); }
void h_equal_p (void) { GHOST; bitmap_t a, b; int r = bitmap_equal_p (a, b); if (r) REACH ("equal"); else REACH ("different"); }
void h_intersect_p (void) { GHOST; bitmap_t a, b; int r = bitmap_intersect_p (a, b); if (r) REACH ("yes"); else REACH ("no"); }
void h_empty_p (void) { GHOST; bitmap_t a; int r = bitmap_empty_p (a); if (r) REACH ("yes"); else REACH ("no"); }
void h_bit_min (void) { GHOST; bitmap_t a; size_t r = bitmap_bit_min (a); if (r > 64) REACH ("big"); REACH ("end"); }
void h_bit_max (void) { GHOST; bitmap_t a; size_t r = bitmap_bit_max (a); if (r > 64) REACH ("big"); REACH ("end"); }
BM_OP2_WRAPPERS (bitmap_and, VP_AND)
BM_OP2_WRAPPERS (bitmap_and_compl, VP_AND_COMPL)
BM_OP2_WRAPPERS (bitmap_ior, VP_IOR)
BM_OP3_WRAPPERS (bitmap_ior_and, VP_IOR_AND)
BM_OP3_WRAPPERS (bitmap_ior_and_compl, VP_IOR_AND_COMPL)
#define RR if (r) REACH ("changed"); else REACH ("unchanged")
#define H_OP2(F)                                                                               \
  void h_##F##_dab (void) { GHOST; bitmap_t d, a, b; int r = F##_dab (d, a, b); RR; }                  \
  void h_##F##_ddb (void) { GHOST; bitmap_t d, b; int r = F##_ddb (d, b); RR; }                        \
  void h_##F##_dad (void) { GHOST; bitmap_t d, a; int r = F##_dad (d, a); RR; }                        \
  void h_##F##_ddd (void) { GHOST; bitmap_t d; int r = F##_ddd (d); REACH ("end"); }                   \
  void h_##F##_daa (void) { GHOST; bitmap_t d, a; int r = F##_daa (d, a); RR; }
H_OP2 (bitmap_and)
H_OP2 (bitmap_and_compl)
H_OP2 (bitmap_ior)
#define H_OP3(F)                                                                               \
  void h_##F##_dabc (void) { GHOST; bitmap_t d, a, b, c; int r = F##_dabc (d, a, b, c); RR; }          \
  void h_##F##_ddbc (void) { GHOST; bitmap_t d, b, c; int r = F##_ddbc (d, b, c); RR; }                \
  void h_##F##_dadc (void) { GHOST; bitmap_t d, a, c; int r = F##_dadc (d, a, c); RR; }                \
  void h_##F##_dabd (void) { GHOST; bitmap_t d, a, b; int r = F##_dabd (d, a, b); RR; }                \
  void h_##F##_dddd (void) { GHOST; bitmap_t d; int r = F##_dddd (d); REACH ("end"); }
H_OP3 (bitmap_ior_and)
H_OP3 (bitmap_ior_and_compl)
void h_iterator_next (void) { GHOST;
  bitmap_iterator_t *it; size_t *nb;
  int r = bitmap_iterator_next (it, nb);
  if (r) REACH ("found"); else REACH ("exhausted");
}
