/* C10 (writer safety per item kind): MIR_output_item on an item of each non-function kind whose payload
   object has exactly the size of that kind's structure: the writer must only read that payload, print
   it and return (it must not run into the printing code of another kind). */
#include <stdint.h>
#include <stddef.h>
#include <stdio.h>
unsigned vp_fprintf_calls;
int vp_last_newline;
int fprintf (FILE *f, const char *fmt, ...) { /* trusted model: FILE is opaque; records whether the text ends a line */
  (void) f;
  __CPROVER_assert (fmt != NULL, "fprintf: format is a string");
  vp_fprintf_calls++;
  size_t n = 0;
  while (n < 40 && fmt[n] != 0) n++;
  vp_last_newline = n > 0 && fmt[n - 1] == '\n';
  return 0;
}
#include "mir.c"
#define REACH(msg) __CPROVER_assert (0, "VP_REACH: " msg)
#define ENS(c, msg) __CPROVER_assert (c, "postcondition: " msg)
int nondet_int (void);
static struct MIR_context vp_ctx;
static struct MIR_item vp_item, vp_ref;
static char vp_name[4] = "nm";
static struct MIR_insn vp_lab1, vp_lab2;
static void run_output (const int kind) {
  vp_item.item_type = (MIR_item_type_t) kind;
  vp_ref.item_type = MIR_import_item; vp_ref.u.import_id = vp_name;
  const char *nm = nondet_int () ? vp_name : NULL;
  switch (kind) {
  case MIR_export_item: vp_item.u.export_id = vp_name; break;
  case MIR_import_item: vp_item.u.import_id = vp_name; break;
  case MIR_forward_item: vp_item.u.forward_id = vp_name; break;
  case MIR_bss_item: vp_item.u.bss = malloc (sizeof (struct MIR_bss)); vp_item.u.bss->name = nm; break;
  case MIR_ref_data_item:
    vp_item.u.ref_data = malloc (sizeof (struct MIR_ref_data)); vp_item.u.ref_data->name = nm; vp_item.u.ref_data->ref_item = &vp_ref; break;
  case MIR_lref_data_item:
    vp_item.u.lref_data = malloc (sizeof (struct MIR_lref_data)); vp_item.u.lref_data->name = nm;
    vp_lab1.ops[0].mode = MIR_OP_INT; vp_lab2.ops[0].mode = MIR_OP_INT;
    vp_item.u.lref_data->label = &vp_lab1; vp_item.u.lref_data->label2 = nondet_int () ? &vp_lab2 : NULL; break;
  default: /* MIR_expr_data_item */
    vp_item.u.expr_data = malloc (sizeof (struct MIR_expr_data)); vp_item.u.expr_data->name = nm; vp_item.u.expr_data->expr_item = &vp_ref; break;
  }
  MIR_output_item (&vp_ctx, (FILE *) 0, &vp_item);
  ENS (vp_fprintf_calls >= 1 && vp_fprintf_calls <= 5, "the item is printed with a few fprintf calls of its own kind");
  ENS (vp_last_newline, "the printed item ends with a newline (the text can be scanned back)");
  REACH ("end");
}
#define E(k) void h_output_##k (void) { run_output (k); }
E (MIR_export_item) E (MIR_import_item) E (MIR_forward_item) E (MIR_bss_item) E (MIR_ref_data_item) E (MIR_lref_data_item)
E (MIR_expr_data_item)
