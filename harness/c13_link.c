/* C13: per-step contracts of the global-definition table.  The hash table module_item_tab is abstracted
   by a ghost map for ONE key name (vp_key) in two scopes: the environment module (exports / externals
   visible to every module) and the module being processed.  item_tab_find, HTAB_DO on module_item_tab
   and get_ctx_str are answered by models (staging op rename_def); setup_global, MIR_load_module and
   MIR_link are the real code.  Bounded in the number of items per module (<= 2). */
#include <stdint.h>
#include <stddef.h>
#include "models/alloc_concrete.h"
#include "mir.c"
#include "models/error.h"
#define REACH(msg) __CPROVER_assert (0, "VP_REACH: " msg)
#define ENS(c, msg) __CPROVER_assert (c, "postcondition: " msg)
int nondet_int (void);
void *nondet_ptr (void);
static struct MIR_context vp_ctx;
static const char vp_key[] = "f";
static MIR_item_t vp_T_env, vp_T_mod; /* ghost map: what the table holds for (vp_key, environment) / (vp_key, current module) */
static int vp_wf, vp_expected_err;
static void vp_on_error (int code) {
  __CPROVER_assert (!vp_wf, "postcondition: the error callback is called only when the documentation prescribes an error");
  __CPROVER_assert (code == vp_expected_err, "postcondition: the error code is the documented one");
  REACH ("error path");
}
static MIR_item_t vp_model_item_tab_find (MIR_context_t ctx, const char *name, MIR_module_t module) {
  __CPROVER_assert (name == vp_key, "model: only the ghost key is looked up in these harnesses");
  return module == &environment_module ? vp_T_env : vp_T_mod;
}
static int vp_model_htab_do (HTAB (MIR_item_t) * htab, MIR_item_t el, enum htab_action action, MIR_item_t *res) {
  (void) htab;
  MIR_context_t ctx = &vp_ctx;
  MIR_item_t *slot = el->module == &environment_module ? &vp_T_env : &vp_T_mod;
  if (action == HTAB_INSERT) { if (*slot == NULL) { *slot = el; *res = el; return 0; } *res = *slot; return 1; }
  if (action == HTAB_DELETE) { int r = *slot != NULL; *slot = NULL; return r; }
  if (*slot != NULL) *res = *slot;
  return *slot != NULL;
}
static const char *vp_model_get_ctx_str (MIR_context_t ctx, const char *string) { (void) ctx; return string; } /* names are interned */
void vp_model_redirect_thunk (MIR_context_t ctx, void *thunk, void *to) { (void) ctx; (void) thunk; (void) to; } /* machine code */
static void vp_ctx_setup (void) {
  MIR_context_t ctx = &vp_ctx;
  ctx->alloc = &vp_alloc;
  error_func = (MIR_error_func_t) vp_error_func;
  DLIST_INIT (MIR_item_t, environment_module.items);
}
static struct MIR_item vp_old; /* an earlier definition of the key in the environment, if any */
static void vp_env_state (void) {
  if (nondet_int ()) { vp_old.item_type = MIR_import_item; vp_old.u.import_id = vp_key; { MIR_context_t ctx = &vp_ctx; vp_old.module = &environment_module; }
    vp_old.addr = nondet_ptr (); vp_old.ref_def = nondet_ptr (); vp_T_env = &vp_old; } else vp_T_env = NULL;
}

/* (a) setup_global: the latest registration wins; the return value signals a redefinition */
void h_setup_global (void) {
  MIR_context_t ctx = &vp_ctx;
  vp_ctx_setup (); vp_env_state ();
  static struct MIR_module cur; curr_module = &cur;
  MIR_item_t before = vp_T_env;
  void *addr = nondet_ptr (); MIR_item_t def = nondet_ptr ();
  vp_wf = 1;
  int r = setup_global (ctx, vp_key, addr, def);
  ENS (vp_T_env != NULL && vp_T_env->addr == addr && vp_T_env->ref_def == def, "the environment entry of the name now has the new address and definition");
  ENS ((r != 0) == (before != NULL), "the result signals that the name was already defined");
  ENS (before == NULL || vp_T_env == before, "a redefinition updates the existing environment entry");
  ENS (before != NULL || (vp_T_env->item_type == MIR_import_item && vp_T_env->u.import_id == vp_key && vp_T_env->module == &environment_module
                          && DLIST_TAIL (MIR_item_t, environment_module.items) == vp_T_env), "a first definition creates the entry in the environment module");
  ENS (curr_module == &cur, "the current module is restored");
  if (before) REACH ("redefinition"); else REACH ("first definition");
}

/* (b) MIR_link: an import is bound to what the environment holds for its name when the link step runs;
   an undefined import goes to the resolver or is an error */
static void *vp_resolved;
static unsigned vp_resolver_calls;
static void *vp_resolver (const char *name) { vp_resolver_calls++; __CPROVER_assert (name == vp_key, "resolver is asked for the import's name"); return vp_resolved; }
static struct MIR_module vp_mod;
static struct MIR_item vp_imp, vp_second;
static VARR (MIR_module_t) vp_mtl; static MIR_module_t vp_mtl_arr[2];
static VARR (uint8_t) vp_used_label; static uint8_t vp_ul_arr[2];
static struct simplify_ctx vp_simplify;
void h_link_import (void) {
  MIR_context_t ctx = &vp_ctx;
  vp_ctx_setup (); vp_env_state ();
  curr_module = NULL;
  ctx->simplify_ctx = &vp_simplify;
  vp_ul_arr[0] = 0; vp_used_label.els_num = 0; vp_used_label.size = 2; vp_used_label.varr = vp_ul_arr; used_label_p = &vp_used_label;
  vp_mtl_arr[0] = &vp_mod; vp_mtl.els_num = 1; vp_mtl.size = 2; vp_mtl.varr = vp_mtl_arr; vp_mtl.alloc = &vp_alloc; modules_to_link = &vp_mtl;
  DLIST_INIT (MIR_item_t, vp_mod.items);
  vp_imp.item_type = MIR_import_item; vp_imp.u.import_id = vp_key; vp_imp.module = &vp_mod;
  /* the module may have been linked before (relinking): the import may carry an old binding - to this entry, whose
     address has been replaced since (MIR_load_external rebinds in place), or to another item */
  static struct MIR_item vp_stale;
  int prev = nondet_int ();
  vp_imp.addr = prev ? nondet_ptr () : NULL; vp_imp.ref_def = prev == 0 ? NULL : prev == 1 ? vp_T_env : &vp_stale;
  DLIST_APPEND (MIR_item_t, vp_mod.items, &vp_imp);
  int with_resolver = nondet_int ();
  vp_resolved = nondet_ptr ();
  MIR_item_t before = vp_T_env;
  void *before_addr = before ? before->addr : NULL;
  vp_wf = before != NULL || (with_resolver && vp_resolved != NULL);
  vp_expected_err = MIR_undeclared_op_ref_error;
  MIR_link (ctx, NULL, with_resolver ? vp_resolver : NULL);
  ENS (vp_wf, "an import with no definition and no resolver answer is never accepted");
  ENS (vp_imp.ref_def == vp_T_env && vp_T_env != NULL, "the import is bound to the environment entry of its name");
  ENS (before != NULL ? (vp_imp.addr == before_addr && vp_T_env == before && vp_resolver_calls == 0)
                      : (vp_imp.addr == vp_resolved && vp_resolver_calls == 1), "the bound address is the last registered definition, else the resolver's answer");
  if (before) REACH ("defined"); else REACH ("resolved");
}

/* (c) MIR_load_module: an exported definition replaces the environment entry; a second exported function
   of the same name is an error unless redefinition is permitted */
static struct MIR_item vp_fitem; static struct MIR_func vp_f;
void h_load_export (void) {
  MIR_context_t ctx = &vp_ctx;
  vp_ctx_setup (); vp_env_state ();
  static struct MIR_module cur; curr_module = &cur;
  vp_mtl.els_num = 0; vp_mtl.size = 2; vp_mtl.varr = vp_mtl_arr; vp_mtl.alloc = &vp_alloc; modules_to_link = &vp_mtl;
  DLIST_INIT (MIR_item_t, vp_mod.items);
  vp_f.name = vp_key; vp_fitem.item_type = MIR_func_item; vp_fitem.u.func = &vp_f; vp_fitem.module = &vp_mod;
  vp_fitem.addr = nondet_ptr (); __CPROVER_assume (vp_fitem.addr != NULL);
  vp_fitem.export_p = nondet_int () != 0;
  DLIST_APPEND (MIR_item_t, vp_mod.items, &vp_fitem);
  func_redef_permission_p = nondet_int () != 0;
  MIR_item_t before = vp_T_env;
  vp_wf = !(vp_fitem.export_p && before != NULL && !func_redef_permission_p);
  vp_expected_err = MIR_repeated_decl_error;
  MIR_load_module (ctx, &vp_mod);
  ENS (vp_wf, "a second exported function of a name is never accepted without redefinition permission");
  if (vp_fitem.export_p) {
    ENS (vp_T_env != NULL && vp_T_env->addr == vp_fitem.addr && vp_T_env->ref_def == &vp_fitem, "after loading, the environment entry of the exported name is this module's definition (the latest export wins)");
    REACH ("exported");
  } else {
    ENS (vp_T_env == before && (before == NULL || (before->addr == vp_old.addr)), "a non-exported definition does not touch the environment");
    REACH ("local");
  }
  ENS (VARR_LENGTH (MIR_module_t, modules_to_link) == 1 && VARR_GET (MIR_module_t, modules_to_link, 0) == &vp_mod, "the module is queued for linking");
}

/* (d) add_item: merging of export / forward / import / definition items of one name inside a module.
   Abstract state: what the module's table holds for the name (vp_T_mod).  Documented rules: a definition
   supersedes export and forward items (they point to it through ref_def, an export marks it exported),
   an export supersedes a forward, an import never coexists with a local item, prototypes and definitions
   cannot be repeated. */
static struct MIR_item vp_existing, vp_new;
/* payload objects: unions as large as the largest payload (CBMC mis-resolves a union member read through a
   pointer when the pointee is a static object smaller than the pointee type of the union's first member) */
static union { struct MIR_func f; struct MIR_proto p; struct MIR_bss b; } vp_pl0, vp_pl1;
#define vp_proto0 (vp_pl0.p)
#define vp_func0 (vp_pl0.f)
#define vp_func1 (vp_pl1.f)
#define vp_bss1 (vp_pl1.b)
static int is_def (int t) { return t == MIR_func_item || t == MIR_bss_item || t == MIR_data_item || t == MIR_ref_data_item || t == MIR_lref_data_item || t == MIR_expr_data_item; }
static void set_name (MIR_item_t it, int t, int which) {
  it->item_type = (MIR_item_type_t) t;
  if (t == MIR_import_item) it->u.import_id = vp_key; else if (t == MIR_export_item) it->u.export_id = vp_key;
  else if (t == MIR_forward_item) it->u.forward_id = vp_key;
  else if (t == MIR_proto_item) { it->u.proto = malloc (sizeof (struct MIR_proto)); it->u.proto->name = vp_key; /* heap object, as MIR_new_proto makes it */ }
  else if (t == MIR_func_item) { if (which) { vp_func1.name = vp_key; it->u.func = &vp_pl1.f; } else { vp_func0.name = vp_key; it->u.func = &vp_pl0.f; } }
  else { vp_bss1.name = vp_key; it->u.bss = which ? &vp_pl1.b : &vp_pl0.b; it->u.bss->name = vp_key; it->item_type = MIR_bss_item; }
}
void h_add_item (void) {
  MIR_context_t ctx = &vp_ctx;
  vp_ctx_setup ();
  curr_module = &vp_mod; DLIST_INIT (MIR_item_t, vp_mod.items);
  int have = nondet_int () != 0, te = nondet_int (), tn = nondet_int ();
  __CPROVER_assume (te == MIR_import_item || te == MIR_export_item || te == MIR_forward_item || te == MIR_proto_item || te == MIR_func_item);
  /* a NEW prototype or bss item is covered through staging op deunion (CBMC loses u.<kind>->name read through the item union
     by pointer otherwise); data/ref/lref/expr data items take the same switch arms as bss in add_item */
  __CPROVER_assume (tn == MIR_import_item || tn == MIR_export_item || tn == MIR_forward_item || tn == MIR_func_item || tn == MIR_proto_item || tn == MIR_bss_item);
  vp_existing.module = &vp_mod; vp_new.module = &vp_mod; vp_new.ref_def = NULL; vp_new.export_p = 0;
  vp_existing.ref_def = NULL; vp_existing.export_p = is_def (te) ? (nondet_int () != 0) : 0;
  set_name (&vp_existing, te, 0); set_name (&vp_new, tn, 1);
  te = vp_existing.item_type; tn = vp_new.item_type;
  vp_T_mod = have ? &vp_existing : NULL;
  int old_exported = vp_existing.export_p;
  vp_wf = 1; vp_expected_err = -1;
  if (have) {
    if (te == MIR_import_item && tn != MIR_import_item) { vp_wf = 0; vp_expected_err = MIR_import_export_error; }
    if ((te == MIR_export_item || te == MIR_forward_item) && tn == MIR_import_item) { vp_wf = 0; vp_expected_err = MIR_import_export_error; }
    if (te == MIR_proto_item) { vp_wf = 0; vp_expected_err = MIR_repeated_decl_error; }
    if (is_def (te) && tn == MIR_import_item) { vp_wf = 0; vp_expected_err = MIR_import_export_error; }
    if (is_def (te) && (is_def (tn) || tn == MIR_proto_item)) { vp_wf = 0; vp_expected_err = MIR_repeated_decl_error; }
  }
  __CPROVER_assert (MIR_item_name (ctx, &vp_new) == vp_key, "postcondition: harness sanity: the new item carries the key name");
  MIR_item_t r = add_item (ctx, &vp_new);
  ENS (vp_wf, "a combination the merge rules forbid is never accepted");
  int appended = DLIST_TAIL (MIR_item_t, vp_mod.items) == &vp_new;
  if (!have) {
    ENS (r == &vp_new && vp_T_mod == &vp_new && appended, "a first item of a name is entered in the table and the module");
  } else if (te == MIR_import_item) {
    ENS (r == &vp_existing && vp_T_mod == &vp_existing && !appended, "a repeated import is merged with the first one");
  } else if (te == MIR_export_item || te == MIR_forward_item) {
    if (tn == te) ENS (r == &vp_existing && vp_T_mod == &vp_existing && !appended, "a repeated export/forward is merged");
    else if (tn == MIR_export_item) ENS (r == &vp_new && appended && vp_T_mod == &vp_new && vp_existing.ref_def == &vp_new, "an export supersedes a forward, which now refers to it");
    else if (tn == MIR_forward_item) ENS (r == &vp_new && appended && vp_T_mod == &vp_existing, "a forward after an export is kept in the module; the table still holds the export");
    else ENS (r == &vp_new && appended && vp_T_mod == &vp_new && vp_existing.ref_def == &vp_new && (vp_new.export_p != 0) == (te == MIR_export_item),
              "a definition supersedes its export/forward item, which now refers to it; an export marks the definition exported");
  } else { /* existing definition */
    if (tn == MIR_export_item && old_exported) ENS (r == &vp_existing && !appended, "only one export item per definition is kept");
    else if (tn == MIR_export_item) ENS (r == &vp_new && appended && vp_existing.export_p && vp_new.ref_def == &vp_existing && vp_T_mod == &vp_existing, "an export after the definition marks it exported and refers to it");
    else ENS (r == &vp_new && appended && vp_new.ref_def == &vp_existing && vp_T_mod == &vp_existing && vp_existing.export_p == old_exported, "a forward after the definition refers to it");
  }
  if (have) REACH ("existing"); else REACH ("first");
  if (tn == MIR_proto_item && have) REACH ("new prototype after an export/forward");
  if (tn == MIR_bss_item && have) REACH ("new bss after an existing item");
  REACH ("end");
}

#ifdef VP_LINK_VALUES
/* (d) C14: the value MIR_link stores for a ref / expr data item.  The item has been placed by
   load_bss_data_section (load_addr points into its section); the interpreter run of the expr function is a
   model that delivers an arbitrary result.  The bytes stored are the referenced item's address plus disp,
   resp. the result in the function's declared result type. */
static MIR_val_t vp_res;
static unsigned vp_interp_calls;
void vp_model_interp (MIR_context_t ctx, MIR_item_t func_item, MIR_val_t *results, size_t nargs, ...) {
  (void) ctx; (void) func_item; (void) nargs;
  vp_interp_calls++;
  results[0] = vp_res;
}
MIR_val_t nondet_val (void);
int64_t nondet_i64 (void);
/* exact byte copy for the small symbolic lengths used here (CBMC's built-in memcpy with a symbolic length into a
   union object lost the write) */
void *memcpy (void *d, const void *s, size_t n) {
  __CPROVER_assert (n <= 16, "model: memcpy of at most one scalar");
  for (size_t i = 0; i < 16; i++) if (i < n) ((char *) d)[i] = ((const char *) s)[i];
  return d;
}
static void run_link_values (int kind) {
  MIR_context_t ctx = &vp_ctx;
  vp_ctx_setup (); vp_T_env = vp_T_mod = NULL;
  curr_module = NULL; ctx->simplify_ctx = &vp_simplify;
  vp_ul_arr[0] = 0; vp_used_label.els_num = 0; vp_used_label.size = 2; vp_used_label.varr = vp_ul_arr; used_label_p = &vp_used_label;
  vp_mtl_arr[0] = &vp_mod; vp_mtl.els_num = 1; vp_mtl.size = 2; vp_mtl.varr = vp_mtl_arr; vp_mtl.alloc = &vp_alloc; modules_to_link = &vp_mtl;
  DLIST_INIT (MIR_item_t, vp_mod.items);
  static struct MIR_item it, target, fitem; static struct MIR_ref_data ref; static struct MIR_expr_data ex;
  static struct MIR_func f; static MIR_type_t rt[1];
  static union { uint64_t w[2]; int8_t i8; int16_t i16; int32_t i32; int64_t i64; float f; double d; long double ld; void *a; } cell;
  cell.w[0] = cell.w[1] = 0xAAAAAAAAAAAAAAAAull;
  it.module = &vp_mod; it.data = NULL;
  target.addr = nondet_ptr (); __CPROVER_assume (target.addr != NULL);
  int t = nondet_int (); __CPROVER_assume (t >= MIR_T_I8 && t <= MIR_T_P && t != MIR_T_BLK); rt[0] = (MIR_type_t) t;
  f.nres = 1; f.res_types = rt; f.expr_p = 1; fitem.item_type = MIR_func_item; fitem.u.func = &f;
  vp_res = nondet_val ();
  if (kind) { it.item_type = MIR_ref_data_item; it.u.ref_data = &ref; ref.name = NULL; ref.ref_item = &target; ref.disp = nondet_i64 (); ref.load_addr = &cell; }
  else { it.item_type = MIR_expr_data_item; it.u.expr_data = &ex; ex.name = NULL; ex.expr_item = &fitem; ex.load_addr = &cell; }
  DLIST_APPEND (MIR_item_t, vp_mod.items, &it);
  vp_wf = 1;
  MIR_link (ctx, NULL, NULL);
  if (kind) {
    ENS (cell.a == (void *) ((char *) target.addr + ref.disp), "a ref data item holds the address of the referenced item plus its displacement");
    ENS (vp_interp_calls == 0, "no expression is evaluated for a ref item");
    ENS (cell.w[1] == 0xAAAAAAAAAAAAAAAAull, "nothing is written past the item");
    REACH ("ref");
  } else {
    ENS (vp_interp_calls == 1, "the expression function is evaluated once");
    size_t sz = (t == MIR_T_I8 || t == MIR_T_U8) ? 1 : (t == MIR_T_I16 || t == MIR_T_U16) ? 2 : (t == MIR_T_I32 || t == MIR_T_U32 || t == MIR_T_F) ? 4 : t == MIR_T_LD ? 16 : 8;
    switch (t) {
    case MIR_T_I8: case MIR_T_U8: ENS (cell.i8 == (int8_t) vp_res.i, "an 8-bit expr item holds the low byte of the result"); break;
    case MIR_T_I16: case MIR_T_U16: ENS (cell.i16 == (int16_t) vp_res.i, "a 16-bit expr item holds the low 16 bits of the result"); break;
    case MIR_T_I32: case MIR_T_U32: ENS (cell.i32 == (int32_t) vp_res.i, "a 32-bit expr item holds the low 32 bits of the result"); break;
    case MIR_T_I64: case MIR_T_U64: ENS (cell.i64 == vp_res.i, "a 64-bit expr item holds the result"); break;
    case MIR_T_F: { float x = vp_res.f; ENS (cell.i32 == *(int32_t *) &x, "a float expr item holds the float result"); break; }
    case MIR_T_D: ENS (cell.i64 == vp_res.i, "a double expr item holds the double result"); break;
    case MIR_T_LD: ENS (cell.ld == vp_res.ld || (cell.ld != cell.ld && vp_res.ld != vp_res.ld), "a long double expr item holds the long double result"); break;
    default: ENS (cell.a == vp_res.a, "a pointer expr item holds the pointer result"); break;
    }
    if (sz < 16) ENS (cell.w[1] == 0xAAAAAAAAAAAAAAAAull, "nothing is written past the item");
    if (sz < 8) ENS ((cell.w[0] >> (8 * sz)) == (0xAAAAAAAAAAAAAAAAull >> (8 * sz)), "nothing is written past the item");
    REACH ("expr");
  }
}
/* concrete item kind per entry: a symbolic item_type would make every arm of MIR_link's dispatch feasible */
void h_link_values_ref (void) { run_link_values (1); }
void h_link_values_expr (void) { run_link_values (0); }
#endif
