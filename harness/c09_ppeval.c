/* C09 (#if arithmetic): the REAL eval() / eval_binop_operands() of /repo/c2mir/c2mir.c on a depth-1
   expression tree (one operator node, literal leaves of symbolic kind and 64-bit value) against
   spec/pp_eval.h (C11 6.10.1 / 6.6).  One entry point per operator (constant node code). */
#include "c2mir/c2mir.c"
#include "spec/pp_eval.h"
#ifdef VP_NO_REACH /* z3 back end aborts while printing the trace of the (intentionally failing) canary */
#define REACH(msg) ((void) 0)
#else
#define REACH(msg) __CPROVER_assert (0, "VP_REACH: " msg)
#endif
#define ENS(c, msg) __CPROVER_assert (c, "postcondition: " msg)
int nondet_int (void);
uint64_t nondet_u64 (void);
static struct node vp_n[4];
static struct c2m_ctx vp_c2m;
/* Children are opaque sub-expressions: the staging op renames the real definition to eval__real and
   lets this model answer the recursive calls with an arbitrary (type, value) per child.  The proof of
   one operator is therefore the induction step for expressions of any depth. */
static pp_val_t vp_child[4];
static unsigned vp_child_evals[4];
static struct val vp_model_eval (c2m_ctx_t c2m_ctx, node_t tree) {
  struct val r;
  (void) c2m_ctx;
  __CPROVER_assert (tree == &vp_n[1] || tree == &vp_n[2] || tree == &vp_n[3], "postcondition: eval recurses only into the operands of the node");
  int k = tree == &vp_n[1] ? 1 : tree == &vp_n[2] ? 2 : 3;
  vp_child_evals[k]++;
  r.uns_p = vp_child[k].uns;
  r.u.u_val = vp_child[k].v;
  return r;
}
static pp_val_t vp_leaf (int k, const int uns) {
  pp_val_t r = {uns, nondet_u64 (), 1};
  vp_n[k].code = N_IGNORE; /* never inspected by the operator under test */
  vp_child[k] = r;
  return r;
}
static void run_pp (const int ncode, const int op, const int arity, const int u1, const int u2, const int u3) {
  pp_val_t a = vp_leaf (1, u1), b = {0, 0, 1}, c = {0, 0, 1};
  vp_n[0].code = (node_code_t) ncode;
  DLIST_INIT (node_t, vp_n[0].u.ops);
  NL_APPEND (vp_n[0].u.ops, &vp_n[1]);
  if (arity >= 2) { b = vp_leaf (2, u2); NL_APPEND (vp_n[0].u.ops, &vp_n[2]); }
  if (arity >= 3) { c = vp_leaf (3, u3); NL_APPEND (vp_n[0].u.ops, &vp_n[3]); }
  pp_val_t s = pp_eval (op, a, b, c);
  __CPROVER_assume (s.defined); /* signed overflow, /0, oversized shifts: no requirement */
  struct val r = eval__real (&vp_c2m, &vp_n[0]);
  ENS ((r.uns_p != 0) == s.uns, "#if operator result has the type C11 gives it (signed intmax_t / unsigned uintmax_t)");
  ENS ((uint64_t) r.u.u_val == s.v, "#if operator result has the value C11 gives it");
  REACH ("end");
}
#define E1(name, ncode, op) \
  void h_pp_##name##_s (void) { run_pp (ncode, op, 1, 0, 0, 0); } void h_pp_##name##_u (void) { run_pp (ncode, op, 1, 1, 0, 0); }
#define E2(name, ncode, op) \
  void h_pp_##name##_ss (void) { run_pp (ncode, op, 2, 0, 0, 0); } void h_pp_##name##_su (void) { run_pp (ncode, op, 2, 0, 1, 0); } \
  void h_pp_##name##_us (void) { run_pp (ncode, op, 2, 1, 0, 0); } void h_pp_##name##_uu (void) { run_pp (ncode, op, 2, 1, 1, 0); }
#define E3(name, ncode, op) \
  void h_pp_##name##_sss (void) { run_pp (ncode, op, 3, 0, 0, 0); } void h_pp_##name##_ssu (void) { run_pp (ncode, op, 3, 0, 0, 1); } \
  void h_pp_##name##_sus (void) { run_pp (ncode, op, 3, 0, 1, 0); } void h_pp_##name##_suu (void) { run_pp (ncode, op, 3, 0, 1, 1); } \
  void h_pp_##name##_uss (void) { run_pp (ncode, op, 3, 1, 0, 0); } void h_pp_##name##_usu (void) { run_pp (ncode, op, 3, 1, 0, 1); }
E1 (not, N_NOT, PP_NOT) E1 (bitnot, N_BITWISE_NOT, PP_BITNOT) E1 (plus, N_ADD, PP_PLUS) E1 (neg, N_SUB, PP_NEG)
E2 (mul, N_MUL, PP_MUL) E2 (div, N_DIV, PP_DIV) E2 (mod, N_MOD, PP_MOD) E2 (add, N_ADD, PP_ADD) E2 (sub, N_SUB, PP_SUB)
E2 (and, N_AND, PP_AND) E2 (xor, N_XOR, PP_XOR) E2 (or, N_OR, PP_OR) E2 (lsh, N_LSH, PP_LSH) E2 (rsh, N_RSH, PP_RSH)
E2 (eq, N_EQ, PP_EQ) E2 (ne, N_NE, PP_NE) E2 (lt, N_LT, PP_LT) E2 (le, N_LE, PP_LE) E2 (gt, N_GT, PP_GT) E2 (ge, N_GE, PP_GE)
E2 (andand, N_ANDAND, PP_ANDAND) E2 (oror, N_OROR, PP_OROR) E3 (cond, N_COND, PP_COND)
