/* C19/C17 VARR harnesses: DEF_VARR instantiated for an element type of VP_ELSZ bytes. */
#include <stdint.h>
#include <stddef.h>
#if VP_ELSZ == 1
typedef uint8_t vp_el_t;
#define vp_el_eq(a, b) ((a) == (b))
#elif VP_ELSZ == 8
typedef uint64_t vp_el_t;
#define vp_el_eq(a, b) ((a) == (b))
#else
typedef struct { uint64_t a; uint64_t b; } vp_el_t;
#define vp_el_eq(x, y) ((x).a == (y).a && (x).b == (y).b)
#endif
#define VP_GHOST_T vp_el_t
#include "models/alloc.h"
#include "models/libc.h"
#include "mir-varr.h"
DEF_VARR (vp_el_t);
#include "contracts/varr.h"
void *(*vp_keep_realloc) (void *, size_t, size_t, void *) = vp_realloc;
#define REACH(msg) __CPROVER_assert (0, "VP_REACH: " msg)
size_t nondet_size (void);
#define GHOST vp_G = nondet_size ()
void h_length (void) { GHOST; VA_T *v; VARR_OP (vp_el_t, length) (v); REACH ("end"); }
void h_capacity (void) { GHOST; VA_T *v; VARR_OP (vp_el_t, capacity) (v); REACH ("end"); }
void h_addr (void) { GHOST; VA_T *v; VARR_OP (vp_el_t, addr) (v); REACH ("end"); }
void h_get (void) { GHOST; VA_T *v; size_t i; VARR_OP (vp_el_t, get) (v, i); REACH ("end"); }
void h_last (void) { GHOST; VA_T *v; VARR_OP (vp_el_t, last) (v); REACH ("end"); }
void h_set (void) { GHOST; VA_T *v; size_t i; vp_el_t o; VARR_OP (vp_el_t, set) (v, i, o); REACH ("end"); }
void h_trunc (void) { GHOST; VA_T *v; size_t n; VARR_OP (vp_el_t, trunc) (v, n); REACH ("end"); }
void h_pop (void) { GHOST; VA_T *v; VARR_OP (vp_el_t, pop) (v); REACH ("end"); }
void h_expand (void) { GHOST; VA_T *v; size_t n; int r = VARR_OP (vp_el_t, expand) (v, n); if (r) REACH ("grown"); else REACH ("kept"); }
void h_tailor (void) { GHOST; VA_T *v; size_t n; VARR_OP (vp_el_t, tailor) (v, n); REACH ("end"); }
void h_push (void) { GHOST; VA_T *v; vp_el_t o; VARR_OP (vp_el_t, push) (v, o); REACH ("end"); }
void h_push_arr (void) { GHOST; VA_T *v; vp_el_t *o; size_t n; VARR_OP (vp_el_t, push_arr) (v, o, n); REACH ("end"); }
void h_create (void) { GHOST; VA_T **v; MIR_alloc_t a; size_t n; VARR_OP (vp_el_t, create) (v, a, n); REACH ("end"); }
void h_destroy (void) { GHOST; VA_T **v; VARR_OP (vp_el_t, destroy) (v); REACH ("end"); }
