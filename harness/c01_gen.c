/* C01 (sub-obligations on the real mir-gen.c): value-level rules the optimizer must share with the interpreter.
   (a) GVN constant folding: every integer arm of the switch in gvn_modify() (copied verbatim into a function per opcode by
       staging op slice_case) folds only when all operands are known constants, produces the value MIR.md gives
       the instruction (spec/mir_sem.h, the specification the interpreter is proved against in C02), and never
       evaluates an undefined C operation while folding.
   (b) gen_int_log2, the power-of-two test behind the mul/div -> shift rewriting.
   (c) alloca_mem_intersect_p / alloca_arg_mem_intersect_p style interval tests. */
#include <stdint.h>
#include <stddef.h>
#include "mir-gen.c"
#include "spec/mir_sem.h"
#define REACH(msg) __CPROVER_assert (0, "VP_REACH: " msg)
#define ENS(c, msg) __CPROVER_assert (c, "postcondition: " msg)
int nondet_int (void);
int64_t nondet_i64 (void);
static struct MIR_insn vp_insn; static struct bb_insn vp_bi, vp_d1, vp_d2; static struct ssa_edge vp_e1, vp_e2;
static int vp_c1, vp_c2, vp_have1, vp_have2;
static void fold_pre (int code, int nops, int64_t a, int64_t b) {
  vp_c1 = nondet_int () != 0; vp_c2 = nondet_int () != 0; vp_have1 = nondet_int () != 0; vp_have2 = nondet_int () != 0;
  vp_insn.code = (MIR_insn_code_t) code; vp_insn.nops = nops; vp_insn.data = &vp_bi; vp_bi.insn = &vp_insn;
  vp_d1.gvn_val_const_p = vp_c1; vp_d1.gvn_val = a; vp_d1.alloca_flag = (unsigned char) nondet_int ();
  vp_d2.gvn_val_const_p = vp_c2; vp_d2.gvn_val = b; vp_d2.alloca_flag = (unsigned char) nondet_int ();
  vp_e1.def = &vp_d1; vp_e1.use = &vp_bi; vp_e2.def = &vp_d2; vp_e2.use = &vp_bi;
  vp_insn.ops[1].data = vp_have1 ? &vp_e1 : NULL;
  vp_insn.ops[2].data = vp_have2 ? &vp_e2 : NULL;
}
static void fold_post (int code, int nops, int64_t a, int64_t b, int r, int64_t val) {
  if (r) {
    ENS (vp_have1 && vp_c1 && (nops == 2 || (vp_have2 && vp_c2)), "an instruction is folded only when every input is a known constant");
    sem_int_t s = nops == 2 ? sem_int2 (code, (uint64_t) a) : sem_int3 (code, (uint64_t) a, (uint64_t) b);
    ENS (sem_agree (s, (uint64_t) val), "the folded constant is the value MIR.md gives the instruction (as the interpreter computes it)");
    if (code == MIR_DIV || code == MIR_DIVS || code == MIR_UDIV || code == MIR_UDIVS || code == MIR_MOD || code == MIR_MODS || code == MIR_UMOD || code == MIR_UMODS)
      ENS (s.defined, "a division whose result is undefined (zero divisor, INT_MIN / -1) is not evaluated by the compiler");
    if (s.defined) REACH ("folded");
  } else
    REACH ("not folded");
}
/* one run of an arm on operands a, b (no function pointers: CBMC would try every function of the signature) */
#define RUN1(CODE, NOPS, FOLD, A, B) do { int64_t vp_a = (A), vp_b = (B), vp_v = nondet_i64 (); fold_pre (CODE, NOPS, vp_a, vp_b); \
    int vp_r = FOLD (&vp_insn, &vp_bi, &vp_v); fold_post (CODE, NOPS, vp_a, vp_b, vp_r, vp_v); } while (0)
#ifdef VP_SMALL_OPERANDS
/* multiplication/division equivalences are beyond every installed solver at full width (bounded stand-in):
   (1) both operands any values in [VP_LO, VP_HI) (signed insns: [-256, 256); unsigned insns: [0, 4096)), (2) every pair of the boundary constants below */
static const int64_t vp_grid[] = {0, 1, -1, INT64_MIN, INT64_MAX, INT32_MIN, INT32_MAX, (int64_t) 1 << 32, ((int64_t) 1 << 32) + 5, 0xffffffffll, -((int64_t) 1 << 32)};
#define NGRID (sizeof (vp_grid) / sizeof (vp_grid[0]))
#define RUN(CODE, NOPS, FOLD) do { int64_t a = nondet_i64 (), b = nondet_i64 (); \
    __CPROVER_assume (a >= VP_LO && a < VP_HI && b >= VP_LO && b < VP_HI); RUN1 (CODE, NOPS, FOLD, a, b); \
    for (unsigned i = 0; i < NGRID; i++) for (unsigned j = 0; j < NGRID; j++) RUN1 (CODE, NOPS, FOLD, vp_grid[i], vp_grid[j]); REACH ("end"); } while (0)
#else
#define RUN(CODE, NOPS, FOLD) do { RUN1 (CODE, NOPS, FOLD, nondet_i64 (), nondet_i64 ()); REACH ("end"); } while (0)
#endif
#define F2(C) static int vp_fold_##C (MIR_insn_t insn, bb_insn_t bb_insn, int64_t *vp_val); void h_fold_##C (void) { RUN (MIR_##C, 2, vp_fold_##C); }
#define F3(C) static int vp_fold_##C (MIR_insn_t insn, bb_insn_t bb_insn, int64_t *vp_val); void h_fold_##C (void) { RUN (MIR_##C, 3, vp_fold_##C); }
#ifdef VP_FOLD
#include "c01_entries.inc"
#endif

/* (b) */
void h_int_log2 (void) {
  int64_t i = nondet_i64 ();
  int64_t n = gen_int_log2 (i);
  ENS (n >= -1 && n < 63, "the result is -1 or a bit position below the sign bit");
  ENS ((n >= 0) == (i > 0 && (i & (i - 1)) == 0), "a non-negative result is given exactly for the positive powers of two");
  if (n >= 0) ENS (i == ((int64_t) 1 << n), "the result is the exponent"), REACH ("power of two");
  REACH ("end");
}

/* (c) memory disambiguation */
size_t _MIR_type_size (MIR_context_t ctx, MIR_type_t t) { /* the contract proved for the real function in C14 (job type_size) */
  (void) ctx;
  return (t == MIR_T_I8 || t == MIR_T_U8) ? 1 : (t == MIR_T_I16 || t == MIR_T_U16) ? 2 : (t == MIR_T_I32 || t == MIR_T_U32 || t == MIR_T_F) ? 4 : t == MIR_T_LD ? 16 : 8;
}
uint32_t nondet_u32 (void);
void h_may_alias (void) {
  MIR_alias_t a1 = nondet_u32 (), a2 = nondet_u32 (), n1 = nondet_u32 (), n2 = nondet_u32 ();
  int r = may_alias_p (a1, a2, n1, n2);
  /* mir.h: alias 0 may alias any memory, memory with the same alias is aliased; nonalias 0 is ignored, memory with the same nonalias is not aliased */
  int distinct_alias_sets = a1 != 0 && a2 != 0 && a1 != a2, declared_disjoint = n1 != 0 && n2 != 0 && n1 == n2;
  ENS (r || distinct_alias_sets || declared_disjoint, "two memory operands are treated as non-aliasing only when their alias sets differ or they are declared non-aliasing");
  ENS (!r || !(distinct_alias_sets || declared_disjoint), "declared non-aliasing is honoured");
  REACH ("end");
}
static struct gen_ctx vp_gen; static mem_attr_t vp_ma[3]; static VARR (mem_attr_t) vp_mav; static struct MIR_insn vp_def1, vp_def2;
void h_alloca_intersect (void) {
  gen_ctx_t gen_ctx = &vp_gen;
  vp_mav.els_num = 3; vp_mav.size = 3; vp_mav.varr = vp_ma; mem_attrs = &vp_mav;
  for (int k = 1; k < 3; k++) {
    vp_ma[k].disp_def_p = nondet_int () != 0; vp_ma[k].disp = nondet_i64 ();
    vp_ma[k].def_insn = nondet_int () ? (nondet_int () ? &vp_def1 : &vp_def2) : NULL;
    __CPROVER_assume (vp_ma[k].disp > -((int64_t) 1 << 62) && vp_ma[k].disp < ((int64_t) 1 << 62));
  }
  int t1 = nondet_int (), t2 = nondet_int ();
  __CPROVER_assume (t1 >= MIR_T_I8 && t1 <= MIR_T_P && t1 != MIR_T_BLK && t2 >= MIR_T_I8 && t2 <= MIR_T_P && t2 != MIR_T_BLK);
  int r = alloca_mem_intersect_p (gen_ctx, 1, (MIR_type_t) t1, 2, (MIR_type_t) t2);
  int64_t x = nondet_i64 (); /* ghost: a byte offset (relative to the common base) inside both accesses */
  int64_t s1 = (int64_t) _MIR_type_size (NULL, (MIR_type_t) t1), s2 = (int64_t) _MIR_type_size (NULL, (MIR_type_t) t2);
  int same_base = vp_ma[1].disp_def_p && vp_ma[2].disp_def_p && vp_ma[1].def_insn != NULL && vp_ma[1].def_insn == vp_ma[2].def_insn;
  if (!same_base) ENS (r, "accesses whose offsets from a common base are not both known are assumed to intersect");
  else if (vp_ma[1].disp <= x && x < vp_ma[1].disp + s1 && vp_ma[2].disp <= x && x < vp_ma[2].disp + s2)
    ENS (r, "two accesses that share a byte are reported as intersecting");
  else if (vp_ma[1].disp + s1 <= vp_ma[2].disp || vp_ma[2].disp + s2 <= vp_ma[1].disp) { ENS (!r, "disjoint accesses off the same base are told apart"); REACH ("disjoint"); }
  REACH ("end");
}
