/* C17 (code write window): every byte _MIR_set_code writes into code memory is written between the
   request for write access and the following request for execute access on the same region. */
#include <stdint.h>
#include <stddef.h>
size_t vp_G;
/* memcpy model with the window obligation (ghost state set by the mem_protect model) */
int vp_window_open;
size_t vp_win_lo, vp_win_hi;
unsigned vp_writes_in_window, vp_protect_calls;
const unsigned char *vp_base; const void *vp_relocs_p; /* ghost copies of the call's arguments */
size_t vp_target (void);
void *memcpy (void *dst, const void *src, size_t n) {
  (void) src;
  __CPROVER_assert (vp_window_open, "postcondition: code memory is written only after write access was requested");
  /* the write of relocation vp_G (an arbitrary one): inside the region opened for writing */
  if ((size_t) dst == vp_target ())
    __CPROVER_assert ((size_t) dst >= vp_win_lo && (size_t) dst + n <= vp_win_hi,
                      "postcondition: written code bytes lie inside the region opened for writing");
  vp_writes_in_window++;
  return dst;
}
#include "mir.c"
#define REACH(msg) __CPROVER_assert (0, "VP_REACH: " msg)
static int vp_mem_protect (void *addr, size_t len, MIR_mem_protect_t prot, void *ud) {
  (void) ud;
  vp_protect_calls++;
  if (prot == PROT_WRITE_EXEC) {
    __CPROVER_assert (!vp_window_open, "write access is not requested twice");
    vp_window_open = 1; vp_win_lo = (size_t) addr; vp_win_hi = (size_t) addr + len;
  } else {
    __CPROVER_assert (vp_window_open && vp_win_lo == (size_t) addr && vp_win_hi == (size_t) addr + len,
                      "execute access is requested for the region that was opened for writing");
    vp_window_open = 0;
  }
  return 0;
}
int (*vp_keep_protect) (void *, size_t, MIR_mem_protect_t, void *) = vp_mem_protect;
size_t nondet_size (void);
size_t vp_target (void) { return (size_t) vp_base + ((const MIR_code_reloc_t *) vp_relocs_p)[vp_G].offset; }
/* harness-contract for _MIR_set_code (requires = assumptions, ensures = assertions; the "for every
   relocation" precondition is instantiated at the ghost index vp_G) */
void h_set_code (void) {
  vp_G = nondet_size ();
  vp_window_open = 0; vp_writes_in_window = 0; vp_protect_calls = 0; vp_win_lo = vp_win_hi = 0;
  struct MIR_code_alloc ca = {0, 0, vp_mem_protect, 0};
  size_t ps = nondet_size (), pl = nondet_size (), nloc = nondet_size (), rs = nondet_size ();
  __CPROVER_assume (nloc >= 1 && nloc <= 100000 && pl <= ((size_t) 1 << 40) && ps <= ((size_t) 1 << 46) && rs <= ((size_t) 1 << 30));
  MIR_code_reloc_t *relocs = malloc (nloc * sizeof (MIR_code_reloc_t));
  uint8_t *base = (uint8_t *) nondet_size ();
  __CPROVER_assume ((size_t) base <= ((size_t) 1 << 46));
  vp_base = base; vp_relocs_p = relocs;
  __CPROVER_assume (vp_G < nloc && relocs[vp_G].offset <= ((size_t) 1 << 40));
  size_t sz = rs == 0 ? sizeof (void *) : rs;
  __CPROVER_assume ((size_t) base + relocs[vp_G].offset >= ps && (size_t) base + relocs[vp_G].offset + sz <= ps + pl);
  _MIR_set_code (&ca, ps, pl, base, nloc, relocs, rs);
  __CPROVER_assert (!vp_window_open && vp_protect_calls == 2, "postcondition: the write window is closed again on return");
  __CPROVER_assert (vp_writes_in_window == nloc, "postcondition: one write per relocation");
  REACH ("end");
}
