/* C17 (code write window): every byte _MIR_set_code writes into code memory is written between the
   request for write access and the following request for execute access on the same region. */
#include <stdint.h>
#include <stddef.h>
size_t vp_G;
/* memcpy model with the window obligation (ghost state set by the mem_protect model) */
int vp_window_open;
size_t vp_win_lo, vp_win_hi;
unsigned vp_writes_in_window, vp_protect_calls;
const unsigned char *vp_base; const void *vp_relocs_p; /* ghost copies of the call's arguments */
size_t vp_target (void);
void *memcpy (void *dst, const void *src, size_t n) {
  (void) src;
  __CPROVER_assert (vp_window_open, "postcondition: code memory is written only after write access was requested");
  /* the write of relocation vp_G (an arbitrary one): inside the region opened for writing */
  if ((size_t) dst == vp_target ())
    __CPROVER_assert ((size_t) dst >= vp_win_lo && (size_t) dst + n <= vp_win_hi,
                      "postcondition: written code bytes lie inside the region opened for writing");
  vp_writes_in_window++;
  return dst;
}
void __builtin___clear_cache (char *b, char *e) { (void) b; (void) e; } /* cache flush: no effect on C state */
#include "mir.c"
#define REACH(msg) __CPROVER_assert (0, "VP_REACH: " msg)
static int vp_mem_protect (void *addr, size_t len, MIR_mem_protect_t prot, void *ud) {
  (void) ud;
  vp_protect_calls++;
  if (prot == PROT_WRITE_EXEC) {
    __CPROVER_assert (!vp_window_open, "write access is not requested twice");
    vp_window_open = 1; vp_win_lo = (size_t) addr; vp_win_hi = (size_t) addr + len;
  } else {
    __CPROVER_assert (vp_window_open && vp_win_lo == (size_t) addr && vp_win_hi == (size_t) addr + len,
                      "execute access is requested for the region that was opened for writing");
    vp_window_open = 0;
  }
  return 0;
}
int (*vp_keep_protect) (void *, size_t, MIR_mem_protect_t, void *) = vp_mem_protect;
size_t nondet_size (void);
size_t vp_target (void) { return (size_t) vp_base + ((const MIR_code_reloc_t *) vp_relocs_p)[vp_G].offset; }
/* harness-contract for _MIR_set_code (requires = assumptions, ensures = assertions; the "for every
   relocation" precondition is instantiated at the ghost index vp_G) */
void h_set_code (void) {
  vp_G = nondet_size ();
  vp_window_open = 0; vp_writes_in_window = 0; vp_protect_calls = 0; vp_win_lo = vp_win_hi = 0;
  struct MIR_code_alloc ca = {0, 0, vp_mem_protect, 0};
  size_t ps = nondet_size (), pl = nondet_size (), nloc = nondet_size (), rs = nondet_size ();
  __CPROVER_assume (nloc >= 1 && nloc <= 100000 && pl <= ((size_t) 1 << 40) && ps <= ((size_t) 1 << 46) && rs <= ((size_t) 1 << 30));
  MIR_code_reloc_t *relocs = malloc (nloc * sizeof (MIR_code_reloc_t));
  uint8_t *base = (uint8_t *) nondet_size ();
  __CPROVER_assume ((size_t) base <= ((size_t) 1 << 46));
  vp_base = base; vp_relocs_p = relocs;
  __CPROVER_assume (vp_G < nloc && relocs[vp_G].offset <= ((size_t) 1 << 40));
  size_t sz = rs == 0 ? sizeof (void *) : rs;
  __CPROVER_assume ((size_t) base + relocs[vp_G].offset >= ps && (size_t) base + relocs[vp_G].offset + sz <= ps + pl);
  _MIR_set_code (&ca, ps, pl, base, nloc, relocs, rs);
  __CPROVER_assert (!vp_window_open && vp_protect_calls == 2, "postcondition: the write window is closed again on return");
  __CPROVER_assert (vp_writes_in_window == nloc, "postcondition: one write per relocation");
  REACH ("end");
}

/* ---- callers of _MIR_set_code: the window they request covers every byte they ask to be written.
   In these harnesses the stager renames the real _MIR_set_code and puts this model in its place: it
   checks the callee precondition for the relocation with ghost index vp_G. */
#ifdef VP_SET_CODE_MODEL
unsigned vp_set_code_calls;
static void vp_model_set_code (MIR_code_alloc_t code_alloc, size_t prot_start, size_t prot_len, uint8_t *base, size_t nloc,
                               const MIR_code_reloc_t *relocs, size_t reloc_size) {
  (void) code_alloc;
  vp_set_code_calls++;
  if (vp_G < nloc) {
    size_t sz = reloc_size == 0 ? sizeof (void *) : reloc_size;
    __CPROVER_assert ((size_t) base + relocs[vp_G].offset >= prot_start
                        && (size_t) base + relocs[vp_G].offset + sz <= prot_start + prot_len,
                      "callee precondition: every relocation lies inside the write window the caller requests");
  }
}
static struct MIR_context vp_ctx;
static struct machine_code_ctx vp_mc;
static void vp_ctx_setup (void) { MIR_context_t ctx = &vp_ctx; ctx->machine_code_ctx = &vp_mc; page_size = 4096; /* mir.c: #define page_size ctx->machine_code_ctx->page_size */ }
void h_update_code_arr (void) {
  vp_G = nondet_size ();
  vp_ctx_setup ();
  size_t nloc = nondet_size ();
  __CPROVER_assume (nloc >= 1 && nloc <= 3 && vp_G < nloc); /* bounded: the max loop is unwound; offsets must not wrap */
  MIR_code_reloc_t relocs[3];
  for (int k = 0; k < 3; k++) { relocs[k].offset = nondet_size (); __CPROVER_assume (relocs[k].offset <= ((size_t) 1 << 40)); }
  uint8_t *base = (uint8_t *) nondet_size ();
  __CPROVER_assume ((size_t) base <= ((size_t) 1 << 46));
  _MIR_update_code_arr (&vp_ctx, base, nloc, relocs);
  __CPROVER_assert (vp_set_code_calls == 1, "postcondition: code is written through _MIR_set_code");
  REACH ("end");
}
#ifndef VP_NREL
#define VP_NREL 256
#endif
/* unbounded route for the max-offset loop (loop contract in annot/code.ann): any number of relocations up to the
   capacity of the harness array; "every offset is below 2^40" is a quantified precondition over that array */
void h_update_code_arr_lc (void) {
  vp_G = nondet_size ();
  vp_set_code_calls = 0; /* DFCC makes statics unconstrained at the entry point: ghost state is reset explicitly */
  vp_ctx_setup ();
  size_t nloc = nondet_size ();
  __CPROVER_assume (nloc >= 1 && nloc <= VP_NREL && vp_G < nloc);
  MIR_code_reloc_t relocs[VP_NREL]; /* automatic: unconstrained contents */
  __CPROVER_assume (__CPROVER_forall { size_t k; (k < VP_NREL) ==> relocs[k].offset <= ((size_t) 1 << 40) });
  uint8_t *base = (uint8_t *) nondet_size ();
  __CPROVER_assume ((size_t) base <= ((size_t) 1 << 46));
  _MIR_update_code_arr (&vp_ctx, base, nloc, relocs);
  __CPROVER_assert (vp_set_code_calls == 1, "postcondition: code is written through _MIR_set_code");
  REACH ("end");
}
void h_change_code (void) {
  vp_G = 0;
  vp_ctx_setup ();
  size_t len = nondet_size ();
  uint8_t *addr = (uint8_t *) nondet_size ();
  __CPROVER_assume ((size_t) addr <= ((size_t) 1 << 46) && len >= 1 && len <= ((size_t) 1 << 30)); /* length 0 would select pointer-relocation mode */
  static const uint8_t code[1];
  _MIR_change_code (&vp_ctx, addr, code, len);
  __CPROVER_assert (vp_set_code_calls == 1, "postcondition: code is written through _MIR_set_code");
  REACH ("end");
}
void h_add_code (void) {
  vp_G = 0;
  vp_ctx_setup ();
  code_holder_t ch;
  size_t start = nondet_size (), fr = nondet_size (), bound = nondet_size (), len = nondet_size ();
  __CPROVER_assume (start <= fr && fr <= bound && bound <= ((size_t) 1 << 46) && len >= 1 && len <= bound - fr); /* holder invariant + get_last_code_holder */
  ch.start = (uint8_t *) start; ch.free = (uint8_t *) fr; ch.bound = (uint8_t *) bound;
  static const uint8_t code[1];
  uint8_t *res = add_code (&vp_ctx, &ch, code, len);
  __CPROVER_assert (res == (uint8_t *) fr && ch.free == (uint8_t *) (fr + len) && ch.free <= ch.bound && ch.start == (uint8_t *) start,
                    "postcondition: the code is placed at the old free pointer and the holder invariant is kept");
  __CPROVER_assert (vp_set_code_calls == 1, "postcondition: code is written through _MIR_set_code");
  REACH ("end");
}
#endif
