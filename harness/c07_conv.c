/* C07 (type conversion rules only): integer_promotion / arithmetic_conversion of c2mir.c against
   C11 6.3.1.1 / 6.3.1.8 on (floating kind, width, signedness) for every pair of basic types. */
#include "c2mir/c2mir.c"
#include "spec/c11_types.h"
#define REACH(msg) __CPROVER_assert (0, "VP_REACH: " msg)
#define ENS(c, msg) __CPROVER_assert (c, "postcondition: " msg)
int nondet_int (void);
static struct type vp_t1, vp_t2;
static int same_attr (struct type r, c11_attr_t e) {
  if (r.mode != TM_BASIC) return 0;
  c11_attr_t a = c11_attr (r.u.basic_type);
  return a.fkind == e.fkind && a.width == e.width && (e.fkind || a.sgn == e.sgn);
}
void h_integer_promotion (void) {
  int b = nondet_int ();
  __CPROVER_assume (b >= TP_BOOL && b <= TP_ULLONG);
  vp_t1.mode = TM_BASIC; vp_t1.u.basic_type = b;
  struct type r = integer_promotion (&vp_t1);
  ENS (same_attr (r, c11_promote (c11_attr (b))), "integer promotion yields the C11 6.3.1.1 type (width and signedness)");
  if (b < TP_INT) REACH ("narrow"); else REACH ("wide");
}
void h_arithmetic_conversion (void) {
  int b1 = nondet_int (), b2 = nondet_int ();
  __CPROVER_assume (b1 >= TP_BOOL && b1 <= TP_LDOUBLE && b2 >= TP_BOOL && b2 <= TP_LDOUBLE);
  vp_t1.mode = TM_BASIC; vp_t1.u.basic_type = b1;
  vp_t2.mode = TM_BASIC; vp_t2.u.basic_type = b2;
  struct type r = arithmetic_conversion (&vp_t1, &vp_t2);
  ENS (same_attr (r, c11_usual (c11_attr (b1), c11_attr (b2))), "usual arithmetic conversions yield the C11 6.3.1.8 common type (kind, width, signedness)");
  if (b1 >= TP_FLOAT || b2 >= TP_FLOAT) REACH ("floating"); else REACH ("integer");
}
