/* C15: ill-formed IR is rejected through the error callback, well-formed IR is accepted.
   Real code: insn_descs, wrong_type_p, MIR_new_insn_arr, MIR_finish_func of /repo/mir.c. */
#include <stdint.h>
#include <stddef.h>
#include "models/alloc_concrete.h"
#include "mir.c"
#include "models/error.h"
#include "spec/mir_modes.h"

#define REACH(msg) __CPROVER_assert (0, "VP_REACH: " msg)
#define ENS(c, msg) __CPROVER_assert (c, "postcondition: " msg)
int nondet_int (void);
size_t nondet_size (void);

/* ---- 1. the operand-mode table against the independent table written from MIR.md ---- */
void h_desc_table (void) {
  int code = nondet_int (), nop = nondet_int ();
  __CPROVER_assume (code >= 0 && code < MIR_INSN_BOUND && nop >= 0 && nop < 4);
  spec_desc_t s = spec_desc (code);
  const struct insn_desc *d = &insn_descs[code];
  ENS (d->code == (MIR_insn_code_t) code, "descriptor row belongs to its opcode");
  if (s.nops < 0) {
    ENS (d->op_modes[0] == MIR_OP_BOUND, "variable-arity instruction has an empty fixed operand list");
    REACH ("variable arity");
  } else {
    ENS (d->op_modes[s.nops] == MIR_OP_BOUND, "arity equals the documented operand count (terminator in place)");
    if (nop < s.nops) {
      ENS ((d->op_modes[nop] & ~OUT_FLAG) == s.mode[nop] || (s.mode[nop] == MIR_OP_REG),
           "operand mode equals the documented mode");
      ENS (((d->op_modes[nop] & OUT_FLAG) != 0) == (nop == 0 && s.out0),
           "operand is an output exactly when the documentation says it receives the result");
      REACH ("fixed arity operand");
    }
  }
}
/* the same through the public accessor used by the checker and the generator */
static struct MIR_context vp_ctx;
static MIR_op_t vp_ops[6];
static struct { struct MIR_insn insn; MIR_op_t more[5]; } vp_insn;
void h_insn_op_mode (void) {
  int code = nondet_int ();
  size_t nop = nondet_size ();
  __CPROVER_assume (code >= 0 && code < MIR_INSN_BOUND && nop < 4);
  spec_desc_t s = spec_desc (code);
  __CPROVER_assume (s.nops >= 0 && nop < (size_t) s.nops);
  vp_insn.insn.code = code;
  vp_insn.insn.nops = s.nops;
  int out_p = nondet_int ();
  MIR_op_mode_t m = MIR_insn_op_mode (&vp_ctx, &vp_insn.insn, nop, &out_p);
  if (!(code == MIR_ADDR || code == MIR_ADDR8 || code == MIR_ADDR16 || code == MIR_ADDR32) || nop == 0)
    ENS ((int) m == s.mode[nop], "MIR_insn_op_mode returns the documented operand mode");
  ENS ((out_p != 0) == (nop == 0 && s.out0), "MIR_insn_op_mode flags exactly the documented output operand");
  REACH ("end");
}

/* ---- 2. type validity predicate ---- */
#include "contracts/mir_ir.h"
void h_wrong_type_p (void) { MIR_type_t t; int r = wrong_type_p (t); if (r) REACH ("wrong"); else REACH ("ok"); }

/* ---- 3. MIR_new_insn_arr: arity and prototype checks ---- */
static int vp_wf, vp_expected_err, vp_errors_seen;
static unsigned long vp_allowed_errs_fwd;
#define vp_allowed_errs vp_allowed_errs_fwd
static void vp_on_error (int code) {
  vp_errors_seen++;
  __CPROVER_assert (!vp_wf, "postcondition: the error callback is called only for ill-formed IR");
  if (vp_expected_err == -2)
    __CPROVER_assert ((vp_allowed_errs >> code) & 1, "postcondition: the error code is one the documentation gives for a rule the instruction violates");
  else
    __CPROVER_assert (code == vp_expected_err, "postcondition: the error code is the documented one for this violation");
  REACH ("error path");
}
/* The arity table ctx->insn_nops is derived from insn_descs by check_and_prepare_insn_descs (count the
   operand modes up to MIR_OP_BOUND).  Running its 189 VARR pushes symbolically is too slow, so the
   harness fills a static VARR with the same count for the one opcode under test (and asserts in
   h_desc_table that the terminator sits at the documented arity). */
static size_t vp_nops_tab[MIR_INSN_BOUND];
static VARR (size_t) vp_nops_varr;
static void vp_ctx_setup (int code) {
  MIR_context_t ctx = &vp_ctx;
  ctx->alloc = &vp_alloc;
  error_func = (MIR_error_func_t) vp_error_func; /* mir.c: #define error_func ctx->error_func */
  size_t j;
  for (j = 0; insn_descs[code].op_modes[j] != MIR_OP_BOUND; j++)
    ;
  vp_nops_tab[code] = j;
  vp_nops_varr.els_num = vp_nops_varr.size = MIR_INSN_BOUND;
  vp_nops_varr.varr = vp_nops_tab;
  insn_nops = &vp_nops_varr;
}
/* fixed-arity instructions: accepted iff the operand count is the documented one */
void h_new_insn_fixed (void) {
  int code = nondet_int ();
  size_t nops = nondet_size ();
  __CPROVER_assume (code >= 0 && code < MIR_INSN_BOUND && nops <= 5);
  vp_ctx_setup (code);
  spec_desc_t s = spec_desc (code);
  __CPROVER_assume (s.nops >= 0); /* variable-arity instructions have their own harness */
  __CPROVER_assume (code != MIR_VA_ARG && code != MIR_PRSET && code != MIR_PRBEQ && code != MIR_PRBNE);
  for (int i = 0; i < 6; i++) vp_ops[i].mode = (MIR_op_mode_t) nondet_int ();
  vp_wf = nops == (size_t) s.nops;
  vp_expected_err = MIR_ops_num_error;
  MIR_insn_t insn = MIR_new_insn_arr (&vp_ctx, code, nops, vp_ops);
  ENS (vp_wf, "an instruction with a wrong operand count is never accepted");
  ENS (insn->code == (MIR_insn_code_t) code && insn->nops == nops, "created instruction carries the opcode and operand count");
  size_t g = nondet_size ();
  __CPROVER_assume (g < nops);
  ENS (insn->ops[g].mode == vp_ops[g].mode, "operands are copied in order");
  REACH ("accepted");
}
/* calls: operand count against the prototype (results + declared arguments, more only for varargs) */
static struct MIR_item vp_proto_item;
static struct MIR_proto vp_proto;
static VARR (MIR_var_t) vp_args_varr;
static MIR_var_t vp_args[3];
static MIR_type_t vp_res_types[2];
void h_new_insn_call (void) {
  int code = nondet_int ();
  __CPROVER_assume (code == MIR_CALL || code == MIR_INLINE || code == MIR_JCALL);
  vp_ctx_setup (code);
  size_t nops = nondet_size (), nres = nondet_size (), nargs = nondet_size ();
  __CPROVER_assume (nops <= 6 && nres <= 1 && nargs <= 2);
  vp_proto.nres = (uint32_t) nres;
  vp_proto.res_types = vp_res_types;
  vp_proto.vararg_p = nondet_int () != 0;
  vp_proto.name = "p";
  vp_args_varr.els_num = nargs; vp_args_varr.size = 3; vp_args_varr.varr = vp_args;
  vp_proto.args = &vp_args_varr; /* MIR_new_proto always creates the argument VARR */
  for (int i = 0; i < 3; i++) { vp_args[i].type = MIR_T_I64; vp_args[i].size = 0; }
  vp_proto_item.item_type = MIR_proto_item;
  vp_proto_item.u.proto = &vp_proto;
  for (int i = 0; i < 6; i++) { vp_ops[i].mode = MIR_OP_INT; }
  vp_ops[0].mode = MIR_OP_REF;
  vp_ops[0].u.ref = &vp_proto_item;
  size_t need = 2 + nres + nargs;
  vp_wf = nops >= 2 && (nops == need || (nops > need && vp_proto.vararg_p));
  vp_expected_err = nops < 2 ? MIR_ops_num_error : MIR_call_op_error;
  MIR_insn_t insn = MIR_new_insn_arr (&vp_ctx, code, nops, vp_ops);
  ENS (vp_wf, "a call whose operands do not match its prototype is never accepted");
  ENS (insn->nops == nops, "created call carries its operand count");
  if (vp_proto.vararg_p && nops > need) REACH ("vararg tail"); else REACH ("exact");
}

/* ---- 4. MIR_finish_func: per-operand mode / type / output checks on one instruction ----
   The function under construction holds [insn under test; ret].  The opcode is a constant of the entry
   point; every operand has a symbolic form (register of each type or undeclared, each immediate kind,
   memory of any type with any base/index register, label, reference, string).  find_rd_by_reg (hash
   tables, string interning) is replaced by a model answering from the ghost register file.
   vp_wf is the well-formedness of the instruction per MIR.md; the set of error codes the documentation
   allows for the violated rules is vp_allowed_errs (bit per error code). */
#ifdef VP_FINISH
static struct MIR_func vp_func;
/* storage laid out as create_insn lays it out (struct MIR_insn followed by the further operands); static raw
   words so that symbolic execution keeps the opcode and operand modes concrete where they are concrete */
static uint64_t vp_raw1[(sizeof (struct MIR_insn) + 4 * sizeof (MIR_op_t)) / 8], vp_raw2[sizeof (struct MIR_insn) / 8];
static MIR_insn_t vp_i1p, vp_retp;
#define vp_i1 (*vp_i1p)
#define vp_ret (*vp_retp)
static reg_desc_t vp_rd[4];
static MIR_type_t vp_reg_type[4]; /* registers 1..3 are declared with these types; other numbers are undeclared */
#define ERRBIT(e) (1ul << (e))
static reg_desc_t *vp_model_find_rd_by_reg (MIR_context_t ctx, MIR_reg_t reg, MIR_func_t func) {
  (void) func;
  if (reg >= 1 && reg <= 3) { vp_rd[reg].type = vp_reg_type[reg]; vp_rd[reg].reg = reg; return &vp_rd[reg]; }
  MIR_get_error_func (ctx) (MIR_undeclared_func_reg_error, "undeclared reg");
  return NULL;
}
static int vp_reg_declared (MIR_reg_t r) { return r >= 1 && r <= 3; }
static int vp_mode_of_type (MIR_type_t t) { return t == MIR_T_F ? MIR_OP_FLOAT : t == MIR_T_D ? MIR_OP_DOUBLE : t == MIR_T_LD ? MIR_OP_LDOUBLE : MIR_OP_INT; }
static void run_finish (const int code) {
  MIR_context_t ctx = &vp_ctx;
  vp_ctx_setup (code);
  spec_desc_t s = spec_desc (code);
  curr_func = &vp_func;
  vp_func.name = "f"; vp_func.nres = 0; vp_func.nargs = 0; vp_func.vararg_p = nondet_int () != 0;
  for (int r = 1; r <= 3; r++) {
    int k = nondet_int ();
    __CPROVER_assume (k >= 0 && k < 4);
    vp_reg_type[r] = k == 0 ? MIR_T_I64 : k == 1 ? MIR_T_F : k == 2 ? MIR_T_D : MIR_T_LD;
  }
  vp_i1p = (MIR_insn_t) vp_raw1;
  vp_retp = (MIR_insn_t) vp_raw2;
  vp_i1.code = code; vp_i1.nops = s.nops;
  vp_ret.code = MIR_RET; vp_ret.nops = 0;
  DLIST_INIT (MIR_insn_t, vp_func.insns);
  DLIST_APPEND (MIR_insn_t, vp_func.insns, vp_i1p);
  DLIST_APPEND (MIR_insn_t, vp_func.insns, vp_retp);
  vp_wf = 1; vp_allowed_errs = 0;
  if (code == MIR_VA_START && !vp_func.vararg_p) { vp_wf = 0; vp_allowed_errs |= ERRBIT (MIR_vararg_func_error); }
  for (int i = 0; i < 4; i++) {
    if (i >= s.nops) break;
    MIR_op_t *op = &vp_i1.ops[i];
    int m = nondet_int ();
    __CPROVER_assume (m == MIR_OP_REG || m == MIR_OP_INT || m == MIR_OP_UINT || m == MIR_OP_FLOAT || m == MIR_OP_DOUBLE
                      || m == MIR_OP_LDOUBLE || m == MIR_OP_REF || m == MIR_OP_STR || m == MIR_OP_MEM || m == MIR_OP_LABEL);
    op->mode = (MIR_op_mode_t) m;
    int expected = s.mode[i], out = i == 0 && s.out0, vmode = m, undef_va = 0;
    if (code == MIR_VA_ARG && i == 2) { __CPROVER_assume (m == MIR_OP_MEM); continue; } /* checked at creation */
    if (m == MIR_OP_REG) {
      op->u.reg = (MIR_reg_t) (nondet_int () & 7);
      __CPROVER_assume (op->u.reg >= 1 && op->u.reg <= 4);
      if (!vp_reg_declared (op->u.reg)) { vp_wf = 0; vp_allowed_errs |= ERRBIT (MIR_undeclared_func_reg_error); continue; }
      vmode = vp_mode_of_type (vp_reg_type[op->u.reg]);
    } else if (m == MIR_OP_MEM) {
      int t = nondet_int ();
      __CPROVER_assume (t >= MIR_T_I8 && t < MIR_T_BOUND);
      op->u.mem.type = (MIR_type_t) t;
      op->u.mem.base = (MIR_reg_t) (nondet_int () & 7); op->u.mem.index = (MIR_reg_t) (nondet_int () & 7);
      __CPROVER_assume (op->u.mem.base <= 4 && op->u.mem.index <= 4);
      op->u.mem.disp = nondet_int ();
      /* MIR.md: the va_list operand of the va insns may be a memory of undefined type */
      undef_va = t == MIR_T_UNDEF
                 && ((code == MIR_VA_START && i == 0) || ((code == MIR_VA_ARG || code == MIR_VA_BLOCK_ARG) && i == 1)
                     || (code == MIR_VA_END && i == 0));
      if (!spec_scalar_type_p (t) && !undef_va) { vp_wf = 0; vp_allowed_errs |= ERRBIT (MIR_wrong_type_error); }
      if (op->u.mem.base != 0 && !vp_reg_declared (op->u.mem.base)) { vp_wf = 0; vp_allowed_errs |= ERRBIT (MIR_undeclared_func_reg_error); }
      else if (op->u.mem.base != 0 && vp_mode_of_type (vp_reg_type[op->u.mem.base]) != MIR_OP_INT) { vp_wf = 0; vp_allowed_errs |= ERRBIT (MIR_reg_type_error); }
      if (op->u.mem.index != 0 && !vp_reg_declared (op->u.mem.index)) { vp_wf = 0; vp_allowed_errs |= ERRBIT (MIR_undeclared_func_reg_error); }
      else if (op->u.mem.index != 0 && vp_mode_of_type (vp_reg_type[op->u.mem.index]) != MIR_OP_INT) { vp_wf = 0; vp_allowed_errs |= ERRBIT (MIR_reg_type_error); }
      vmode = t == MIR_T_UNDEF ? MIR_OP_UNDEF : vp_mode_of_type ((MIR_type_t) t);
    } else if (m == MIR_OP_UINT || m == MIR_OP_REF || m == MIR_OP_STR) {
      vmode = MIR_OP_INT; /* unsigned immediates count as integers; references and strings are addresses */
    }
    if (undef_va) {
      /* accepted as documented */
    } else if (expected == MIR_OP_REG) {
      if (m != MIR_OP_REG) { vp_wf = 0; vp_allowed_errs |= ERRBIT (MIR_op_mode_error); }
    } else if (expected != MIR_OP_UNDEF && vmode != expected) {
      vp_wf = 0; vp_allowed_errs |= ERRBIT (MIR_op_mode_error);
    }
    if (out && m != MIR_OP_REG && m != MIR_OP_MEM) { vp_wf = 0; vp_allowed_errs |= ERRBIT (MIR_out_op_error); }
  }
  if (code == MIR_JRET) { vp_wf = 0; vp_allowed_errs |= ERRBIT (MIR_vararg_func_error); } /* ret and jret must not be mixed */
  vp_expected_err = -2; /* the error code is checked against the allowed set instead */
  MIR_finish_func (ctx);
  ENS (vp_wf, "an instruction with an operand MIR.md does not allow is never accepted");
  ENS (curr_func == NULL, "a finished function is no longer the current one");
  REACH ("accepted");
}
#define F(c) void h_finish_##c (void) { run_finish (c); }
#include "harness/c15_finish_entries.inc"
#endif
