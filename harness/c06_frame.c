/* C06 (callee side): the callee-saved registers are restored in the epilogue from the place the prologue saved them
   to.  In target_make_prolog_epilog the first save slot and the first restore slot are computed by two separate
   statements 30 lines apart; both right-hand sides are copied verbatim out of the REAL function (staging op
   slice_rhs) and must agree for every frame (frame pointer kept or not, any block size, any number of slots). */
#include <stdint.h>
#include <stddef.h>
#include "mir-gen.c"
#define REACH(msg) __CPROVER_assert (0, "VP_REACH: " msg)
#define ENS(c, msg) __CPROVER_assert (c, "postcondition: " msg)
int nondet_int (void); int64_t nondet_i64 (void); size_t nondet_size (void);
static int64_t vp_save_start (gen_ctx_t gen_ctx, int64_t bp_saved_reg_offset, size_t stack_slots_size, size_t stack_slots_num);
static int64_t vp_restore_start (gen_ctx_t gen_ctx, int64_t bp_saved_reg_offset, size_t stack_slots_size, size_t stack_slots_num);
void h_frame_pairing (void) {
  static struct gen_ctx g; static struct target_ctx tc;
  gen_ctx_t gen_ctx = &g; gen_ctx->target_ctx = &tc; keep_fp_p = (unsigned char) nondet_int ();
  int64_t bp = nondet_i64 (); size_t sz = nondet_size (), num = nondet_size ();
  ENS (vp_save_start (gen_ctx, bp, sz, num) == vp_restore_start (gen_ctx, bp, sz, num), "callee-saved registers are restored from the slots they were saved to");
  REACH ("end");
}
