/* Allocator model for harnesses whose allocation sizes are concrete (setup code that runs on
   constants): CBMC's own malloc/realloc/free, contents fully preserved; realloc still asserts the
   CUSTOM-ALLOCATORS.md contract (old_size is the block's true size). */
#ifndef VP_MODELS_ALLOC_CONCRETE_H
#define VP_MODELS_ALLOC_CONCRETE_H
#include <stdlib.h>
#include <string.h>
#include "mir-alloc.h"
static void *vp_malloc (size_t n, void *ud) { (void) ud; return malloc (n); }
static void *vp_calloc (size_t n, size_t s, void *ud) { (void) ud; return calloc (n, s); }
static void *vp_realloc (void *p, size_t old_size, size_t new_size, void *ud) {
  (void) ud;
  __CPROVER_assert (p == NULL || __CPROVER_OBJECT_SIZE (p) == old_size, "allocator: realloc old_size is the block's true size");
  return realloc (p, new_size);
}
static void vp_free (void *p, void *ud) { (void) ud; free (p); }
struct MIR_alloc vp_alloc = {vp_malloc, vp_calloc, vp_realloc, vp_free, NULL};
#endif
