/* Trusted model of the user allocator (CUSTOM-ALLOCATORS.md contract).
   - malloc/calloc: a fresh object of exactly the requested size (CBMC malloc; never fails:
     the library treats NULL as fatal, see mir_varr_error / MIR_alloc error paths).
   - realloc: ASSERTS that old_size is the true size of the block and that ptr is the start of
     a live heap block, returns a fresh block of exactly new_size bytes whose contents are
     unconstrained except for the ghost element (index vp_G of type VP_GHOST_T), which is
     carried over when it lies in both blocks; frees the old block.
   - free: CBMC free (double free / free of non-heap pointer are CBMC obligations).
   The ghost element idiom: vp_G is an unconstrained global, so a fact proved about element
   vp_G holds for every element. */
#ifndef VP_MODELS_ALLOC_H
#define VP_MODELS_ALLOC_H
#include <stdlib.h>
#include <stdint.h>
#include <stddef.h>
#include "mir-alloc.h"

#ifndef VP_GHOST_T
#define VP_GHOST_T uint64_t
#endif
size_t vp_G; /* ghost element index, never assigned */

static void *vp_malloc (size_t n, void *ud) {
  (void) ud;
  return malloc (n);
}
static void *vp_calloc (size_t n, size_t s, void *ud) {
  (void) ud;
  return calloc (n, s);
}
static void *vp_realloc (void *p, size_t old_size, size_t new_size, void *ud) {
  (void) ud;
  __CPROVER_assert (p == NULL || (__CPROVER_POINTER_OFFSET (p) == 0 && __CPROVER_DYNAMIC_OBJECT (p)),
                    "allocator: realloc gets the start of a heap block");
  __CPROVER_assert (p == NULL || __CPROVER_OBJECT_SIZE (p) == old_size,
                    "allocator: realloc old_size is the block's true size");
  VP_GHOST_T *q = malloc (new_size);
  if (p != NULL && vp_G < old_size / sizeof (VP_GHOST_T) && vp_G < new_size / sizeof (VP_GHOST_T))
    q[vp_G] = ((VP_GHOST_T *) p)[vp_G];
  if (p != NULL) free (p);
  return q;
}
static void vp_free (void *p, void *ud) {
  (void) ud;
  free (p);
}
struct MIR_alloc vp_alloc = {vp_malloc, vp_calloc, vp_realloc, vp_free, NULL};
/* precondition form: CBMC resolves data-pointer dereferences through value sets, which an assumed
   equality (a == &vp_alloc) does not feed; function pointers are dispatched by value comparison, so
   a fresh MIR_alloc object whose members are assumed equal to the model functions works. */
#define VP_ALLOC_OK(a)                                                                         \
  (__CPROVER_is_fresh (a, sizeof (struct MIR_alloc)) && (a)->malloc == vp_malloc               \
   && (a)->calloc == vp_calloc && (a)->realloc == vp_realloc && (a)->free == vp_free)
#endif
