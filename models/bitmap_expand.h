/* Model body that takes the place of bitmap_expand in the proofs of its callers (staging op
   rename_def bitmap_expand -> bitmap_expand__real).  It is the operational reading of the
   contract that job expand_E enforces on the real bitmap_expand:
     - length becomes max(old length, ceil(nb/64));
     - the word array may have moved (old block freed, new block of exactly size*8 bytes) and
       must have moved when the old capacity is too small;
     - ghost word vp_G keeps its value if it was inside the old length, is 0 if it lies in
       the added tail; every other word is unconstrained (callers' contracts only speak
       about word vp_G, which is universally quantified by being unconstrained). */
static inline void vp_model_bitmap_expand (bitmap_t bm, size_t nb) {
  size_t new_len = (nb + BITMAP_WORD_BITS - 1) / BITMAP_WORD_BITS, len = bm->els_num;
  if (new_len <= len) return;
  _Bool moved;
  if (new_len > bm->size) moved = 1;
  if (moved) {
    size_t ns;
    __CPROVER_assume (ns >= new_len && ns >= bm->size && ns <= 2 * VP_MAXW);
    bitmap_el_t *q = malloc (ns * sizeof (bitmap_el_t));
    if (vp_G < len) q[vp_G] = bm->varr[vp_G];
    free (bm->varr);
    bm->varr = q;
    bm->size = ns;
  }
  if (len <= vp_G && vp_G < new_len) bm->varr[vp_G] = 0;
  bm->els_num = new_len;
}
