/* Trusted models of libc bulk operations.  Each asserts the documented precondition of the
   external function (readable source, writable destination, no overlap) and then
   over-approximates the effect: the destination object is havocked and only the ghost
   element (index vp_G of VP_GHOST_T, counted from the destination pointer) is carried over.
   CBMC's own memcpy/memset with a symbolic length do not scale (DESIGN.md section 7). */
#ifndef VP_MODELS_LIBC_H
#define VP_MODELS_LIBC_H
#include <stddef.h>
#include <stdint.h>
#ifndef VP_GHOST_T
#define VP_GHOST_T uint64_t
#endif
extern size_t vp_G;

void *memcpy (void *dst, const void *src, size_t n) {
  __CPROVER_assert (n == 0 || __CPROVER_r_ok (src, n), "memcpy: source readable for n bytes");
  __CPROVER_assert (n == 0 || __CPROVER_w_ok (dst, n), "memcpy: destination writable for n bytes");
  __CPROVER_assert (n == 0 || !__CPROVER_same_object (dst, src)
                      || __CPROVER_POINTER_OFFSET (dst) + n <= __CPROVER_POINTER_OFFSET (src)
                      || __CPROVER_POINTER_OFFSET (src) + n <= __CPROVER_POINTER_OFFSET (dst),
                    "memcpy: regions do not overlap");
  if (n > 0) {
    VP_GHOST_T g;
    _Bool in = vp_G < n / sizeof (VP_GHOST_T);
    if (in) g = ((const VP_GHOST_T *) src)[vp_G];
#ifndef VP_MEMCPY_NO_HAVOC
    __CPROVER_havoc_object (dst);
#endif
#ifndef VP_NO_GHOST_COPY /* layout-only harnesses: contents are not tracked at all */
    if (in) ((VP_GHOST_T *) dst)[vp_G] = g;
#endif
  }
  return dst;
}

void *memmove (void *dst, const void *src, size_t n) {
  __CPROVER_assert (n == 0 || __CPROVER_r_ok (src, n), "memmove: source readable for n bytes");
  __CPROVER_assert (n == 0 || __CPROVER_w_ok (dst, n), "memmove: destination writable for n bytes");
  if (n > 0) {
    VP_GHOST_T g;
    _Bool in = vp_G < n / sizeof (VP_GHOST_T);
    if (in) g = ((const VP_GHOST_T *) src)[vp_G];
#ifndef VP_MEMCPY_NO_HAVOC
    __CPROVER_havoc_object (dst);
#endif
#ifndef VP_NO_GHOST_COPY /* layout-only harnesses: contents are not tracked at all */
    if (in) ((VP_GHOST_T *) dst)[vp_G] = g;
#endif
  }
  return dst;
}

void *memset (void *dst, int c, size_t n) {
  __CPROVER_assert (n == 0 || __CPROVER_w_ok (dst, n), "memset: destination writable for n bytes");
  if (n > 0) {
    _Bool in = vp_G < n / sizeof (VP_GHOST_T);
#ifndef VP_MEMCPY_NO_HAVOC
    __CPROVER_havoc_object (dst);
#endif
#ifndef VP_NO_GHOST_COPY
    if (in) {
      unsigned char *p = (unsigned char *) &((VP_GHOST_T *) dst)[vp_G];
      for (size_t k = 0; k < sizeof (VP_GHOST_T); k++) p[k] = (unsigned char) c;
    }
#endif
  }
  return dst;
}

/* result 0 implies the ghost elements are equal (soundness direction only) */
int memcmp (const void *a, const void *b, size_t n) {
  __CPROVER_assert (n == 0 || __CPROVER_r_ok (a, n), "memcmp: first readable for n bytes");
  __CPROVER_assert (n == 0 || __CPROVER_r_ok (b, n), "memcmp: second readable for n bytes");
  int r;
  if (n == 0) return 0;
  if (vp_G < n / sizeof (VP_GHOST_T) && ((const VP_GHOST_T *) a)[vp_G] != ((const VP_GHOST_T *) b)[vp_G])
    __CPROVER_assume (r != 0);
  return r;
}
#endif
