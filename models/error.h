/* Trusted model of the context's error function (MIR.md: "the function should not return"):
   records the error code, then stops the path.  Obligations about the error are asserted by the
   harness BEFORE the path stops, through the hook vp_on_error(). */
#ifndef VP_MODELS_ERROR_H
#define VP_MODELS_ERROR_H
int vp_err_code = -1;
static void vp_on_error (int code);
static void vp_error_func (MIR_error_type_t t, const char *fmt, ...) {
  (void) fmt;
  vp_err_code = (int) t;
  vp_on_error ((int) t);
  __CPROVER_assume (0);
}
MIR_error_func_t vp_keep_error = (MIR_error_func_t) vp_error_func;
#endif
