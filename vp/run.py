"""Job runner: staged .i  ->  goto-cc  ->  goto-instrument --dfcc  ->  cbmc.
Parses cbmc --json-ui results into obligation records."""
import os, subprocess, json, time, re, resource, signal

MEM_LIMIT_KB = int(os.environ.get('VP_MEM_KB', str(16 * 1024 * 1024)))


class ToolError(Exception):
    def __init__(self, stage, msg):
        Exception.__init__(self, '%s: %s' % (stage, msg))
        self.stage = stage
        self.msg = msg


def _limits():
    resource.setrlimit(resource.RLIMIT_AS, (MEM_LIMIT_KB * 1024, MEM_LIMIT_KB * 1024))
    os.setsid()


def sh(cmd, timeout, log=None):
    t0 = time.time()
    try:
        p = subprocess.Popen(cmd, stdout=subprocess.PIPE, stderr=subprocess.PIPE, text=True,
                             preexec_fn=_limits)
        try:
            out, err = p.communicate(timeout=timeout)
        except subprocess.TimeoutExpired:
            try:
                os.killpg(p.pid, signal.SIGKILL)
            except Exception:
                p.kill()
            out, err = p.communicate()
            return None, out, err, time.time() - t0
    except OSError as e:
        raise ToolError('exec', str(e))
    if log:
        with open(log, 'a') as f:
            f.write('$ %s\n[rc=%s %.1fs]\n%s\n' % (' '.join(cmd), p.returncode, time.time() - t0, err[-4000:]))
    return p.returncode, out, err, time.time() - t0


class Job:
    """One verification job = one cbmc run.

    kind: 'proof'   - closed by contracts / loop-free / constant-bounded loops with unwinding assertions
          'bounded' - unwinding up to a structural bound that is not a constant of the code
    """

    def __init__(self, name, harness, entry, enforce=None, replace=(), defines=None, anns=(),
                 unwind=None, unwindset=(), solver='sat', kind='proof', bound=None, timeout=600,
                 cbmc_flags=(), loop_contracts=None, functions=(), ops=None, object_bits=None,
                 no_standard_checks=False, note='', replay=None, incdirs=(), expect_reach=None,
                 enforce_more=(), fallback=None, pre_unwind=(), scope=()):
        self.name = name
        self.harness = harness
        self.entry = entry
        self.enforce = enforce
        self.enforce_more = list(enforce_more)
        self.replace = list(replace)
        self.defines = dict(defines or {})
        self.anns = list(anns)
        self.unwind = unwind
        self.unwindset = list(unwindset)
        self.solver = solver
        self.kind = kind
        self.bound = bound
        self.timeout = timeout
        self.cbmc_flags = list(cbmc_flags)
        self.loop_contracts = bool(anns) if loop_contracts is None else loop_contracts
        self.functions = list(functions)
        self.ops = ops
        self.object_bits = object_bits
        self.no_standard_checks = no_standard_checks
        self.note = note
        self.replay = replay
        self.incdirs = list(incdirs)
        self.expect_reach = expect_reach
        self.fallback = fallback
        self.pre_unwind = list(pre_unwind)
        self.count_funcs = None  # optional: the real functions this entry point reaches
        self.scope = set(scope)  # harness functions (besides entry) whose assertions belong to this job


SOLVER_FLAGS = {
    'sat': [],
    'cadical': ['--sat-solver', 'cadical'],
    'kissat': ['--external-sat-solver', 'kissat'],
    'z3': ['--z3'],
    'cvc5': ['--cvc5'],
    'bitwuzla': ['--bitwuzla'],
}


def classify(prop, desc):
    """-> 'reach' | 'A' | 'P'"""
    if 'VP_REACH' in desc:
        return 'reach'
    p = prop
    if 'dereferenced function pointer must be' in desc and 'one of' not in desc:
        # the asserted side of a --restrict-function-pointer directive of this framework (job option restrict_fp):
        # if an edit renumbers the call sites of a function the directive names another site; that is scaffolding
        return 'A'
    if re.search(r'loop_invariant_base|loop_invariant_step|loop_decreases|loop_assigns|\.unwind\.|\.recursion', p):
        return 'A'
    if 'unwinding assertion' in desc or 'recursion unwinding' in desc:
        return 'A'
    if re.search(r'Check invariant|Check variant|loop invariant|decreases clause|loop assigns', desc, re.I):
        return 'A'
    if 'ptr NULL or writable up to size' in desc:
        # DFCC's check that an assignment target is a valid writable location: memory safety
        return 'P'
    if p.startswith('__CPROVER_contracts') or p.startswith('__CPROVER_'):
        # DFCC library internal bookkeeping
        return 'A'
    return 'P'


def category(prop, desc):
    for key in ('postcondition', 'precondition', 'assigns', 'loop_invariant_base', 'loop_invariant_step',
                'loop_decreases', 'loop_assigns', 'unwind', 'pointer_dereference', 'bounds', 'overflow',
                'pointer_primitives', 'pointer_arithmetic', 'division-by-zero', 'undefined-shift', 'assertion',
                'enum-range', 'pointer'):
        if ('.' + key) in prop:
            return key
    if 'VP_REACH' in desc:
        return 'reach'
    return 'other'


_compile_lock = __import__('threading').Lock()
_compiled = {}


def compile_and_instrument(job, staged, workdir, log):
    base = os.path.join(workdir, job.name)
    gb = base + '.gb'
    if not (job.enforce or job.replace or job.loop_contracts or job.pre_unwind):
        # plain harness: compile the staged TU once, let cbmc pick the entry point (--function)
        with _compile_lock:
            if staged not in _compiled:
                sgb = staged[:-2] + '.gb'
                rc, out, err, t = sh(['goto-cc', '-c', staged, '-o', sgb], 300, log)
                _compiled[staged] = (rc, sgb, err)
            rc, sgb, err = _compiled[staged]
        if rc != 0:
            raise ToolError('goto-cc', (err or '')[-3000:] if rc is not None else 'timeout')
        job._shared_entry = True
        rfp = getattr(job, 'restrict_fp', None)
        if rfp:
            # goto-instrument guards each restriction with an assertion ("dereferenced function pointer must be ...")
            rgb = base + '.rfp.gb'
            cmd = ['goto-instrument']
            for r in rfp:
                cmd += ['--restrict-function-pointer', r]
            rc2, out2, err2, t2 = sh(cmd + [sgb, rgb], 300, log)
            if rc2 != 0:
                raise ToolError('goto-instrument --restrict-function-pointer', ((out2 or '') + (err2 or ''))[-2000:] if rc2 is not None else 'timeout')
            return rgb, err or ''
        return sgb, err or ''
    rc, out, err, t = sh(['goto-cc', '--function', job.entry, staged, '-o', gb], 300, log)
    if rc != 0:
        raise ToolError('goto-cc', (err or '')[-3000:] if rc is not None else 'timeout')
    cur = gb
    warnings = err or ''
    if job.pre_unwind:
        # loops of callees that sit under a loop contract must be gone before DFCC instruments
        pu = base + '.pu.gb'
        cmd = ['goto-instrument']
        for u in job.pre_unwind:
            cmd += ['--unwindset', u]
        cmd += ['--unwinding-assertions', cur, pu]
        rc, out, err, t = sh(cmd, 300, log)
        if rc != 0:
            raise ToolError('goto-instrument --unwindset', ((out or '') + (err or ''))[-2000:] if rc is not None else 'timeout')
        cur = pu
    if job.enforce or job.replace or job.loop_contracts:
        gi = base + '.dfcc.gb'
        cmd = ['goto-instrument', '--no-malloc-may-fail', '--dfcc', job.entry]
        for f in ([job.enforce] if job.enforce else []) + job.enforce_more:
            cmd += ['--enforce-contract', f]
        for r in job.replace:
            cmd += ['--replace-call-with-contract', r]
        if job.loop_contracts:
            cmd += ['--apply-loop-contracts']
        cmd += [cur, gi]
        rc, out, err, t = sh(cmd, 600, log)
        if rc != 0:
            raise ToolError('goto-instrument', ((out or '') + (err or ''))[-3000:] if rc is not None else 'timeout')
        warnings += (out or '') + (err or '')
        cur = gi
    return cur, warnings


def cbmc_cmd(job, gbfile, extra=()):
    cmd = ['cbmc', gbfile, '--json-ui']
    if getattr(job, '_shared_entry', False):
        cmd += ['--function', job.entry]
    if job.no_standard_checks:
        cmd += ['--no-standard-checks']
    else:
        cmd += ['--bounds-check', '--pointer-check', '--pointer-overflow-check', '--no-malloc-may-fail']
    if job.unwind is not None:
        cmd += ['--unwind', str(job.unwind), '--unwinding-assertions']
    for u in job.unwindset:
        cmd += ['--unwindset', u]
        if '--unwinding-assertions' not in cmd:
            cmd += ['--unwinding-assertions']
    if job.object_bits:
        cmd += ['--object-bits', str(job.object_bits)]
    cmd += SOLVER_FLAGS[job.solver]
    cmd += job.cbmc_flags
    cmd += list(extra)
    return cmd


def parse_json_ui(out):
    """Returns (results list, messages list, status string)"""
    try:
        data = json.loads(out)
    except Exception:
        # truncated output (killed): try to salvage
        return None, [], None
    results = None
    msgs = []
    status = None
    for el in data:
        if 'result' in el:
            results = el['result']
        if 'messageText' in el:
            msgs.append(el['messageText'])
        if 'cProverStatus' in el:
            status = el['cProverStatus']
    return results, msgs, status


def run_job(job, staged, workdir, log):
    """Returns dict: {status: 'done'|'timeout'|'error', obligations: [...], seconds, warnings, cmd}"""
    t0 = time.time()
    res = {'job': job.name, 'kind': job.kind, 'solver': job.solver, 'obligations': [], 'warnings': []}
    try:
        gbfile, warn = compile_and_instrument(job, staged, workdir, log)
    except ToolError as e:
        res.update(status='error', reason=str(e), seconds=time.time() - t0)
        return res
    res['gb'] = gbfile
    for w in warn.splitlines():
        if re.search(r'ignoring|no body for function|no candidates', w):
            res['warnings'].append(w.strip()[:300])
    cmd = cbmc_cmd(job, gbfile)
    res['cmd'] = ' '.join(cmd)
    rc, out, err, t = sh(cmd, job.timeout, log)
    res['seconds'] = round(time.time() - t0, 2)
    res['solver_seconds'] = round(t, 2)
    if rc is None:
        res.update(status='timeout', reason='cbmc exceeded %ds' % job.timeout)
        return res
    results, msgs, status = parse_json_ui(out)
    for m in msgs:
        if re.search(r'ignoring|no body for function|no candidates for dereferenced|SMT2.*Error|unknown', m):
            res['warnings'].append(m.strip()[:300])
    if results is None:
        tail = (out or '')[-1500:] + (err or '')[-1500:]
        res.update(status='error', reason='cbmc rc=%s without result list: %s' % (rc, tail))
        return res
    for r in results:
        prop = r.get('property', '')
        desc = r.get('description', '')
        loc = r.get('sourceLocation', {})
        if getattr(job, '_shared_entry', False) and '/harness/' in loc.get('file', '') \
                and loc.get('function', '') not in job.scope and loc.get('function', '') != job.entry:
            continue  # assertion of another entry point of the shared harness TU: unreachable here
        if getattr(job, '_shared_entry', False) and job.count_funcs is not None \
                and loc.get('function', '') not in job.count_funcs and loc.get('function', '') != job.entry \
                and loc.get('function', '') not in job.scope:
            continue  # generic obligation in a function of the TU this entry point never calls
        res['obligations'].append({
            'id': prop, 'desc': desc, 'status': r.get('status'),
            'class': classify(prop, desc), 'cat': category(prop, desc),
            'loc': '%s:%s' % (loc.get('file', '?'), loc.get('line', '?')),
            'func': loc.get('function', ''),
        })
    res['status'] = 'done'
    return res


def trace_for(job, gbfile, prop, workdir, log, timeout=None):
    """Re-run cbmc for one failing property with --trace; return (inputs dict, raw text tail)."""
    cmd = cbmc_cmd(job, gbfile, ['--trace', '--property', prop])
    rc, out, err, t = sh(cmd, timeout or job.timeout, log)
    inputs = {}
    order = []
    raw = ''
    trace_for.last_trace = []
    if rc is None:
        return inputs, order, 'trace run timed out'
    try:
        data = json.loads(out)
    except Exception:
        return inputs, order, (out or '')[-2000:]
    for el in data:
        if 'result' not in el:
            continue
        for r in el['result']:
            if r.get('property') != prop or 'trace' not in r:
                continue
            trace_for.last_trace = r['trace']
            for st in r['trace']:
                if st.get('stepType') != 'assignment':
                    continue
                lhs = st.get('lhs', '')
                fn = st.get('sourceLocation', {}).get('function', '')
                val = st.get('value', {})
                if st.get('hidden'):
                    continue
                if fn == job.entry or fn in job.scope or lhs.startswith('vp_') or lhs.startswith('VP_') or lhs.startswith('g_'):
                    v = val.get('data', val.get('name'))
                    if v is None and 'binary' in val:
                        v = val['binary']
                    inputs[lhs] = v if not isinstance(v, (dict, list)) else json.dumps(v)[:200]
                    order.append((lhs, inputs[lhs]))
            raw = json.dumps({'property': prop, 'description': r.get('description'), 'status': r.get('status')})
    return inputs, order, raw
