"""Staging: preprocess a harness (which #includes the real /repo sources) with
goto-cc -E, then inject loop contracts from annot/*.ann into the preprocessed
text, keyed by (function name, loop ordinal).  Nothing else is changed unless a
check asks for a named textual operation (rename of a function definition,
slice extraction); those are reported in evidence as dropped_by_staging.

Must-fire rule: any mismatch (function missing, defined twice, wrong number of
loops) raises StageError -> the check exits 2 (UNDECIDED), never a violation.
"""
import re, os, subprocess, hashlib

REPO = os.environ.get('VP_REPO', '/repo')
VERIF = os.path.dirname(os.path.dirname(os.path.abspath(__file__)))


class StageError(Exception):
    pass


# ---------------------------------------------------------------- tokenizer
_tok_re = re.compile(r'''
    (?P<ws>[ \t\r\f\v]+)
  | (?P<nl>\n)
  | (?P<linemark>^\#[^\n]*)
  | (?P<str>"(?:\\.|[^"\\\n])*")
  | (?P<chr>'(?:\\.|[^'\\\n])*')
  | (?P<id>[A-Za-z_][A-Za-z_0-9]*)
  | (?P<num>\.?[0-9](?:[eEpP][+-]|[A-Za-z_0-9.])*)
  | (?P<punct>->|\+\+|--|<<=|>>=|<<|>>|<=|>=|==|!=|&&|\|\||[-+*/%&|^]=|\.\.\.|[{}()\[\];,.:?~!<>=+\-*/%&|^\#@\\$`])
''', re.X | re.M)


def tokenize(text):
    """Return list of (kind, text, start_offset).  Input is preprocessed C
    (no comments), so only strings/chars need protection."""
    out = []
    pos = 0
    n = len(text)
    while pos < n:
        m = _tok_re.match(text, pos)
        if not m:
            # unknown byte: keep as punct so offsets stay right
            out.append(('punct', text[pos], pos))
            pos += 1
            continue
        k = m.lastgroup
        if k not in ('ws', 'nl', 'linemark'):
            out.append((k, m.group(), pos))
        pos = m.end()
    return out


def _match_forward(toks, i, open_t, close_t):
    """toks[i] is open_t; return index of matching close."""
    depth = 0
    j = i
    while j < len(toks):
        t = toks[j][1]
        if t == open_t:
            depth += 1
        elif t == close_t:
            depth -= 1
            if depth == 0:
                return j
        j += 1
    raise StageError('unbalanced %s%s' % (open_t, close_t))


def find_function_defs(toks, name):
    """Indices (i_name, i_lbrace, i_rbrace) of every top-level definition of
    `name` (identifier followed by a parenthesised list, optional attributes /
    contract clauses, then a brace), at brace depth 0."""
    res = []
    depth = 0
    i = 0
    n = len(toks)
    while i < n:
        k, t, _ = toks[i]
        if t == '{':
            depth += 1
        elif t == '}':
            depth -= 1
        elif depth == 0 and k == 'id' and t == name and i + 1 < n and toks[i + 1][1] == '(':
            j = _match_forward(toks, i + 1, '(', ')')
            # skip trailing attribute / contract clauses: id ( ... )
            q = j + 1
            while q + 1 < n and toks[q][0] == 'id' and toks[q + 1][1] == '(':
                q = _match_forward(toks, q + 1, '(', ')') + 1
            if q < n and toks[q][1] == '{':
                r = _match_forward(toks, q, '{', '}')
                res.append((i, q, r))
                i = r
                depth = 0
        i += 1
    return res


def find_loops(toks, lb, rb):
    """Loops inside body toks[lb..rb] in source order.  Returns list of dicts
    {kind, insert_tok}: the contract text is inserted *after* token index
    insert_tok (the ')' closing the header of for/while, or the ')' closing
    the condition of do-while)."""
    loops = []
    i = lb + 1
    pending_do = []  # stack of (ordinal, brace_depth)
    depth = 0

    # First pass: we need do-while pairing.  Walk tokens; track statement
    # structure only as far as needed: a `do` is followed by a statement; its
    # `while` is the first `while` at the same nesting depth after that
    # statement ends.  We handle the (universal in this code base) case where
    # the do body is a brace block, and the simple-statement case.
    def stmt_end(j):
        """index of last token of the statement starting at toks[j]."""
        t = toks[j][1]
        if t == '{':
            return _match_forward(toks, j, '{', '}')
        if t in ('for', 'while', 'if', 'switch'):
            p = _match_forward(toks, j + 1, '(', ')')
            e = stmt_end(p + 1)
            if t == 'if' and e + 1 < rb and toks[e + 1][1] == 'else':
                e = stmt_end(e + 2)
            return e
        if t == 'do':
            e = stmt_end(j + 1)
            if toks[e + 1][1] != 'while':
                raise StageError('do without while')
            p = _match_forward(toks, e + 2, '(', ')')
            return p + 1  # the ';'
        # simple statement: up to ';' at paren depth 0
        d = 0
        k = j
        while k < rb:
            tt = toks[k][1]
            if tt in '([{':
                d += 1
            elif tt in ')]}':
                d -= 1
            elif tt == ';' and d == 0:
                return k
            k += 1
        raise StageError('unterminated statement')

    do_whiles = set()
    while i < rb:
        k, t, _ = toks[i]
        if k == 'id' and t in ('for', 'while'):
            if i in do_whiles:
                i += 1
                continue
            if toks[i + 1][1] != '(':
                raise StageError('loop keyword without (')
            p = _match_forward(toks, i + 1, '(', ')')
            loops.append({'kind': t, 'insert_tok': p, 'kw_tok': i})
        elif k == 'id' and t == 'do':
            e = stmt_end(i + 1)
            if toks[e + 1][1] != 'while':
                raise StageError('do without while')
            p = _match_forward(toks, e + 2, '(', ')')
            do_whiles.add(e + 1)
            loops.append({'kind': 'do', 'insert_tok': p, 'kw_tok': i})
        i += 1
    return loops


# ---------------------------------------------------------------- .ann files
def parse_ann(path):
    """Format:
         function <name> loops <N>
         loop <k>
           <contract clause text, any number of lines>
         end
       Lines starting with '//' are comments.  Returns
       {fname: {'loops': N, 'clauses': {k: text}}}"""
    res = {}
    cur = None
    curk = None
    buf = []
    for ln, line in enumerate(open(path), 1):
        s = line.strip()
        if s.startswith('//') or not s:
            continue
        m = re.match(r'function\s+(\w+)\s+loops\s+(\d+)$', s)
        if m and curk is None:
            cur = res.setdefault(m.group(1), {'loops': int(m.group(2)), 'clauses': {}, 'src': path})
            continue
        m = re.match(r'loop\s+(\d+)$', s)
        if m and curk is None:
            if cur is None:
                raise StageError('%s:%d: loop outside function' % (path, ln))
            curk = int(m.group(1))
            buf = []
            continue
        if s == 'end' and curk is not None:
            cur['clauses'][curk] = ' '.join(buf)
            curk = None
            continue
        if curk is None:
            raise StageError('%s:%d: unexpected text' % (path, ln))
        buf.append(s)
    if curk is not None:
        raise StageError('%s: unterminated loop record' % path)
    return res


# ---------------------------------------------------------------- staging
def preprocess(harness, defines, incdirs, out):
    cmd = ['goto-cc', '-E']
    for d in incdirs:
        cmd += ['-I', d]
    cmd += ['-I', REPO, '-I', VERIF]
    for k, v in defines.items():
        cmd.append('-D%s=%s' % (k, v) if v is not None else '-D%s' % k)
    cmd += [harness, '-o', out]
    p = subprocess.run(cmd, capture_output=True, text=True)
    if p.returncode != 0:
        raise StageError('goto-cc -E failed: %s\n%s' % (' '.join(cmd), p.stderr[-2000:]))
    return cmd


def inject(text, anns, ops=None):
    """anns: merged dict from parse_ann.  ops: list of textual operations
    ('rename_def', old, new).  Returns (new_text, report)."""
    report = {'loop_contracts': [], 'ops': []}
    toks = tokenize(text)
    inserts = []  # (offset, text)
    appended = []
    for fname, rec in sorted(anns.items()):
        defs = find_function_defs(toks, fname)
        if len(defs) != 1:
            raise StageError('function %s: %d definitions in staged text (want 1)' % (fname, len(defs)))
        _, lb, rb = defs[0]
        loops = find_loops(toks, lb, rb)
        if len(loops) != rec['loops']:
            raise StageError('function %s: %d loops in staged text, annotation expects %d'
                             % (fname, len(loops), rec['loops']))
        for k, clause in rec['clauses'].items():
            if k >= len(loops):
                raise StageError('function %s: no loop %d' % (fname, k))
            tk = toks[loops[k]['insert_tok']]
            off = tk[2] + len(tk[1])
            inserts.append((off, ' ' + clause + ' '))
            report['loop_contracts'].append('%s#%d(%s)' % (fname, k, loops[k]['kind']))
    for op in ops or []:
        if op[0] == 'rename_def':
            old, new = op[1], op[2]
            defs = find_function_defs(toks, old)
            if len(defs) != 1:
                raise StageError('rename_def %s: %d definitions' % (old, len(defs)))
            di = defs[0][0]
            tk = toks[di]
            # start of the declaration: token after the previous top-level ';' or '}'
            s = di
            while s > 0 and toks[s - 1][1] not in (';', '}'):
                s -= 1
            proto = text[toks[s][2]:toks[defs[0][1]][2]].strip()
            proto = re.sub(r'\s+', ' ', proto)
            # replace identifier at definition only, and keep a prototype of the original name
            inserts.append((tk[2], ('__RENAME__', len(old), new)))
            inserts.append((toks[s][2], proto + '; '))
            if len(op) > 3:
                # the model body is written under another name and takes the original name
                mdefs = find_function_defs(toks, op[3])
                if len(mdefs) != 1:
                    raise StageError('rename_def %s: model %s has %d definitions' % (old, op[3], len(mdefs)))
                mt = toks[mdefs[0][0]]
                inserts.append((mt[2], ('__RENAME__', len(op[3]), old)))
            report['ops'].append('definition of %s renamed to %s (a model in /verif/models takes its place)' % (old, new))
        elif op[0] == 'deunion':
            # CBMC 6.11 evaluates `p->u.<m>-><f>` to an unconstrained value when <m> is a pointer member (not the first)
            # of a union of pointers (minimal reproduction in DESIGN.md 10.2).  Mechanical, semantics-preserving rewrite
            # of `ID->u.<m>->` into `({ __typeof__ (ID->u.<m>) vp_u = ID->u.<m>; vp_u; })->` for the listed members.
            members = op[1]
            pat = re.compile(r'(?<![.>\w])([A-Za-z_]\w*)->u\.(%s)->' % '|'.join(members))
            n = 0
            for m in pat.finditer(text):
                inserts.append((m.start(), ('__RENAME__', m.end() - m.start(),
                                            '({ __typeof__ (%s->u.%s) vp_u = %s->u.%s; vp_u; })->' % (m.group(1), m.group(2), m.group(1), m.group(2)))))
                n += 1
            if n == 0:
                raise StageError('deunion: pattern never matched')
            report['ops'].append('%d occurrences of ID->u.{%s}-> rewritten through a temporary (work-around for a CBMC union dereference defect)'
                                 % (n, ','.join(members)))
        elif op[0] == 'widen_tail':
            # ('widen_tail', struct tag, member, N): the C89 "struct hack" `T member[1];` at the end of a struct is indexed
            # past its declared bound by the code; CBMC gives such reads an unconstrained value.  The declared bound is
            # raised to N (objects only get larger; every sizeof-based size computation in the code stays consistent).
            _, tag, member, n_el = op
            ms = list(re.finditer(r'struct\s+%s\s*\{' % re.escape(tag), text))
            if len(ms) != 1:
                raise StageError('widen_tail %s: struct definition found %d times (want 1)' % (tag, len(ms)))
            ti = next(i for i, t in enumerate(toks) if t[2] == ms[0].end() - 1)
            tj = _match_forward(toks, ti, '{', '}')
            body = text[toks[ti][2]:toks[tj][2]]
            mm = list(re.finditer(r'\b%s\s*\[\s*1\s*\]\s*;' % re.escape(member), body))
            if len(mm) != 1:
                raise StageError('widen_tail %s.%s: member[1] found %d times (want 1)' % (tag, member, len(mm)))
            a = toks[ti][2] + mm[0].start()
            inserts.append((a, ('__RENAME__', mm[0].end() - mm[0].start(), '%s[%d];' % (member, n_el))))
            report['ops'].append('struct %s: trailing array %s[1] declared as %s[%d] (struct-hack indexing is outside CBMC\'s reach)'
                                 % (tag, member, member, n_el))
        elif op[0] == 'slice_cond':
            # ('slice_cond', function, regex locating 'if (' of the condition inside the function, prototype):
            # the parenthesised condition is copied into a new function appended to the TU
            _, fname, start_re, proto = op
            defs = find_function_defs(toks, fname)
            if len(defs) != 1:
                raise StageError('slice_cond %s: %d definitions' % (fname, len(defs)))
            b0, b1 = toks[defs[0][1]][2], toks[defs[0][2]][2]
            ms = list(re.finditer(start_re, text[b0:b1]))
            if len(ms) != 1:
                raise StageError('slice_cond %s: marker found %d times (want 1)' % (fname, len(ms)))
            po = b0 + ms[0].end() - 1  # offset of the '(' that opens the condition
            ti = next(i for i, t in enumerate(toks) if t[2] == po)
            if toks[ti][1] != '(':
                raise StageError('slice_cond %s: marker does not end at (' % fname)
            tj = _match_forward(toks, ti, '(', ')')
            cond = text[toks[ti][2]:toks[tj][2] + 1]
            cond = ' '.join(l for l in cond.splitlines() if not l.startswith('#'))
            appended.append('\n%s { return %s; }\n' % (proto, cond))
            report['ops'].append('condition of %s (%s...) copied into generated function %s; the statements it guards are dropped'
                                 % (fname, start_re[:40], proto))
        elif op[0] == 'slice_rhs':
            # ('slice_rhs', function, regex with one group = the right-hand side, [prototypes]): every statement of the function
            # matching the regex contributes its right-hand side, copied verbatim, as `proto_k { return (RHS); }`; the number of
            # matches must equal the number of prototypes.  Everything else of the function is dropped.
            _, fname, rx, protos = op
            defs = find_function_defs(toks, fname)
            if len(defs) != 1:
                raise StageError('slice_rhs %s: %d definitions' % (fname, len(defs)))
            b0, b1 = toks[defs[0][1]][2], toks[defs[0][2]][2]
            ms = list(re.finditer(rx, text[b0:b1]))
            if len(ms) != len(protos):
                raise StageError('slice_rhs %s: %d statements match, %d expected' % (fname, len(ms), len(protos)))
            for mm, proto in zip(ms, protos):
                rhs = ' '.join(l for l in mm.group(1).splitlines() if not l.startswith('#'))
                appended.append('\n%s { return (%s); }\n' % (proto, rhs))
            report['ops'].append('%d right-hand sides of %s matching /%s/ copied into generated functions; the rest of %s is dropped'
                                 % (len(ms), fname, rx[:40], fname))
        elif op[0] == 'slice_case':
            # ('slice_case', function, case label, proto, prologue, epilogue): the statements of one arm of a switch in a
            # large function are copied verbatim into a generated function  proto { prologue <arm> epilogue }.
            # The arm is the text after `case LABEL :` (further case labels directly after it are skipped) up to the first
            # `break ;` at the arm's own nesting level; `goto L ;` becomes `{ epilogue }` (control leaves the arm), statement
            # labels inside the arm are dropped.  Everything else of the function is dropped.
            _, fname, label, proto, prologue, epilogue = op
            defs = find_function_defs(toks, fname)
            if len(defs) != 1:
                raise StageError('slice_case %s: %d definitions' % (fname, len(defs)))
            lb, rb = defs[0][1], defs[0][2]
            starts = [i for i in range(lb, rb) if toks[i][1] == 'case' and toks[i + 1][1] == label and toks[i + 2][1] == ':']
            if len(starts) != 1:
                raise StageError('slice_case %s: case %s found %d times (want 1)' % (fname, label, len(starts)))
            i = starts[0] + 3
            while toks[i][1] == 'case' and toks[i + 2][1] == ':':
                i += 3
            out = []
            depth = 0
            j = i
            ctx = []          # one entry per open brace: True when a `break` inside it belongs to an inner switch/loop
            pending = False   # a switch/for/while/do keyword was seen: the next `{` opens a breakable block
            arm_left = False  # the arm's own `break` was met inside a nested plain block
            done = False
            while j < rb:
                t = toks[j][1]
                if t in ('switch', 'for', 'while', 'do'):
                    pending = True
                if t == '{':
                    ctx.append(pending or (bool(ctx) and ctx[-1]))
                    pending = False
                    depth += 1
                elif t == '(':
                    depth += 1
                elif t == '}':
                    depth -= 1
                    if ctx:
                        ctx.pop()
                    if depth < 0:
                        raise StageError('slice_case %s/%s: arm runs past the switch' % (fname, label))
                    if depth == 0 and arm_left:
                        out.append(t)
                        done = True
                        break
                elif t == ')':
                    depth -= 1
                    if depth < 0:
                        raise StageError('slice_case %s/%s: arm runs past the switch' % (fname, label))
                elif t == ';' and pending and depth == 0:
                    pending = False
                if t == 'break' and toks[j + 1][1] == ';':
                    if depth == 0:
                        done = True
                        break
                    if not (ctx and ctx[-1]):
                        out.append('{ ' + epilogue + ' }')  # leaves the arm from inside a plain block
                        arm_left = True
                        j += 2
                        continue
                if t == 'goto' and toks[j + 2][1] == ';':
                    out.append('{ ' + epilogue + ' }')
                    j += 3
                    continue
                if t == 'continue' and toks[j + 1][1] == ';' and not (ctx and ctx[-1]):
                    raise StageError('slice_case %s/%s: arm contains continue' % (fname, label))
                if depth == 0 and toks[j][0] == 'id' and toks[j + 1][1] == ':' and toks[j - 1][1] in (';', '}', ':') and t not in ('default',):
                    j += 2  # statement label
                    continue
                if depth == 0 and t == 'case' and toks[j + 2][1] == ':':
                    j += 3  # fall-through into the next arm: keep going
                    continue
                out.append(t)
                j += 1
            if not done:
                raise StageError('slice_case %s/%s: no break found' % (fname, label))
            body = ' '.join(out)
            appended.append('\n%s { %s %s %s }\n' % (proto, prologue, body, epilogue))
            report['ops'].append('arm `case %s` of the switch in %s copied into generated function %s (gotos leave the arm); the rest of %s is dropped'
                                 % (label, fname, proto.split('(')[0].split()[-1], fname))
        else:
            raise StageError('unknown staging op %r' % (op,))
    inserts.sort(key=lambda x: x[0], reverse=True)
    for off, ins in inserts:
        if isinstance(ins, tuple):
            _, ln, new = ins
            text = text[:off] + new + text[off + ln:]
        else:
            text = text[:off] + ins + text[off:]
    text += ''.join(appended)
    return text, report


def strip_injected(staged, anns):
    """inverse used by the self-check: staged text minus injected clauses must
    equal the plain preprocessor output."""
    for rec in anns.values():
        for clause in rec['clauses'].values():
            staged = staged.replace(' ' + clause + ' ', '', 1)
    return staged


_stage_lock = __import__('threading').Lock()
_stage_cache = {}


def stage(harness, defines, ann_files, workdir, ops=None, incdirs=()):
    with _stage_lock:
        k = (harness, tuple(sorted(defines.items())), tuple(ann_files), repr(ops), workdir)
        if k not in _stage_cache:
            _stage_cache[k] = _stage(harness, defines, ann_files, workdir, ops, incdirs)
        return _stage_cache[k]


def _stage(harness, defines, ann_files, workdir, ops=None, incdirs=()):
    os.makedirs(workdir, exist_ok=True)
    key = hashlib.sha1(repr((harness, sorted(defines.items()), ann_files, ops)).encode()).hexdigest()[:12]
    raw = os.path.join(workdir, 'pp_%s.i' % key)
    out = os.path.join(workdir, 'st_%s.i' % key)
    anns = {}
    for f in ann_files:
        for k, v in parse_ann(f).items():
            if k in anns:
                raise StageError('function %s annotated twice' % k)
            anns[k] = v
    # The clause texts may use macros of the contract headers: they are preprocessed together
    # with the harness (appended after it, behind marker lines) and cut off again.
    # textual substitution of a capacity macro in a copy of a /repo header (reported in evidence)
    subst_reports = []
    pre_inc = []
    for op in ops or []:
        if op[0] == 'subst_define':
            _, fname, macro, value = op
            src = open(os.path.join(REPO, fname)).read()
            pat = re.compile(r'^(#define[ \t]+%s[ \t]+)(.*)$' % re.escape(macro), re.M)
            if len(pat.findall(src)) != 1:
                raise StageError('subst_define %s in %s: %d matches (want 1)' % (macro, fname, len(pat.findall(src))))
            old = pat.search(src).group(2)
            sd = os.path.join(workdir, 'subst_%s' % key)
            os.makedirs(sd, exist_ok=True)
            open(os.path.join(sd, os.path.basename(fname)), 'w').write(pat.sub(lambda m: m.group(1) + value, src))
            pre_inc.append(sd)
            subst_reports.append('%s: #define %s %s  replaced by  %s (CBMC cannot build the full-size object)'
                                 % (fname, macro, old.strip(), value))
    ops = [op for op in (ops or []) if op[0] != 'subst_define'] or None
    wrap = os.path.join(workdir, 'w_%s.c' % key)
    recs = []
    with open(wrap, 'w') as f:
        f.write('#include "%s"\n' % harness)
        for fn in sorted(anns):
            for k in sorted(anns[fn]['clauses']):
                recs.append((fn, k))
                f.write('__VPANN_MARK__ %d\n%s\n' % (len(recs) - 1, anns[fn]['clauses'][k]))
        f.write('__VPANN_MARK__ end\n')
    cmd = preprocess(wrap, defines, pre_inc + list(incdirs) + [os.path.dirname(harness)], raw)
    text = open(raw).read()
    if recs:
        cut = text.index('__VPANN_MARK__ 0')
        tail = text[cut:]
        text = text[:cut]
        parts = re.split(r'__VPANN_MARK__ (\d+|end)\n', tail)
        # parts: ['', '0', clause0, '1', clause1, ..., 'end', rest]
        for i in range(1, len(parts) - 1, 2):
            if parts[i] == 'end':
                break
            fn, k = recs[int(parts[i])]
            exp = ' '.join(l for l in parts[i + 1].splitlines() if not l.startswith('#')).strip()
            anns[fn]['clauses'][k] = re.sub(r'\s+', ' ', exp)
    else:
        text = text[:text.index('__VPANN_MARK__ end')]
    # drop the line marker(s) that return to the wrapper file at the end
    open(raw, 'w').write(text)
    new, report = inject(text, anns, ops)
    if not ops and strip_injected(new, anns) != text:
        raise StageError('self-check failed: staged text minus injected clauses differs from preprocessor output')
    open(out, 'w').write(new)
    report['ops'] = report.get('ops', []) + subst_reports
    report['pp_cmd'] = ' '.join(cmd)
    report['staged'] = out
    return out, report
