"""Check orchestration: stage, run all jobs of a property in parallel, classify,
build replay files, honour known findings, write evidence, pick the exit code.

Exit codes: 0 held / 1 VIOLATION / 2 UNDECIDED (could not decide; never used on
the unchanged tree by a registered check)."""
import os, sys, json, time, shutil, re, importlib, glob, subprocess
from concurrent.futures import ThreadPoolExecutor
from . import stage as S
from . import run as R

VERIF = S.VERIF
REPO = S.REPO
CAT_TRACKED = ('postcondition', 'loop_invariant_base', 'loop_invariant_step', 'loop_decreases', 'reach', 'assertion',
               'precondition')


def load_findings():
    path = os.path.join(VERIF, 'known_findings.txt')
    res = []
    if not os.path.exists(path):
        return res
    for line in open(path):
        line = line.strip()
        if not line or line.startswith('#'):
            continue
        m = re.match(r'finding:\s+property=(\S+)\s+job=(\S+)\s+obligation~"([^"]*)"\s+(.*)$', line)
        if m:
            res.append({'property': m.group(1), 'job': m.group(2), 'match': m.group(3), 'text': m.group(4)})
    return res


def scan_assumptions(files):
    """mechanical scan for __CPROVER_assume in harness/model/contract files"""
    out = []
    for f in files:
        try:
            for ln, line in enumerate(open(f), 1):
                if '__CPROVER_assume' in line:
                    out.append('%s:%d: %s' % (os.path.relpath(f, VERIF), ln, line.strip()[:160]))
        except OSError:
            pass
    return out


def included_verif_files(staged_raw):
    files = set()
    try:
        for line in open(staged_raw):
            if line.startswith('# '):
                m = re.match(r'# \d+ "([^"]+)"', line)
                if m and m.group(1).startswith(VERIF + '/'):
                    files.add(m.group(1))
    except OSError:
        pass
    return sorted(files)


def manifest_claim(pid):
    """the claim text of MANIFEST.json for this property (it states what is and what is not decided)"""
    try:
        m = json.load(open(os.path.join(VERIF, 'MANIFEST.json')))
        for c in m.get('checks', []):
            if c.get('property_id') == pid:
                return c['level_claimed']['text']
    except Exception:
        pass
    return ''


def run_check(mod, tier, update_expected=False, only=None, keep=False, verbose=False):
    pid = mod.ID
    t0 = time.time()
    seed = int(os.environ.get('VERIF_SEED', '0') or 0)
    work = os.path.join(VERIF, '.work', '%s-%s-%d' % (pid, tier, os.getpid()))
    shutil.rmtree(work, ignore_errors=True)
    os.makedirs(work)
    log = os.path.join(work, 'log.txt')
    jobs = mod.jobs(tier)
    if only:
        jobs = [j for j in jobs if re.search(only, j.name)]
    undecided = []  # reasons
    if not jobs:
        undecided.append('no jobs selected (vacuous run)')
    stage_reports = {}
    staged_of = {}
    raw_files = set()
    # ---- staging (serial, cheap)
    for j in jobs:
        key = (j.harness, tuple(sorted(j.defines.items())), tuple(j.anns), repr(j.ops))
        if key in stage_reports:
            staged_of[j.name] = stage_reports[key][0]
            continue
        try:
            hp = os.path.join(VERIF, j.harness)
            anns = [os.path.join(VERIF, a) for a in j.anns]
            st, rep = S.stage(hp, j.defines, anns, work, j.ops, j.incdirs)
            stage_reports[key] = (st, rep)
            staged_of[j.name] = st
            raw_files.add(st.replace('/st_', '/pp_'))
        except S.StageError as e:
            stage_reports[key] = (None, {'error': str(e)})
            staged_of[j.name] = None
            undecided.append('staging %s: %s' % (j.name, e))
    # ---- run
    nworkers = int(os.environ.get('VP_JOBS', '16'))
    results = {}

    def go(j):
        st = staged_of[j.name]
        if st is None:
            return {'job': j.name, 'kind': j.kind, 'solver': j.solver, 'status': 'error', 'reason': 'staging failed',
                    'obligations': [], 'warnings': [], 'seconds': 0}
        r = R.run_job(j, st, work, log)
        if verbose:
            sys.stderr.write('[%s] %s %s %.1fs\n' % (pid, j.name, r['status'], r.get('seconds', 0)))
        return r

    # longest first
    order = sorted(jobs, key=lambda j: -j.timeout)
    with ThreadPoolExecutor(max_workers=nworkers) as ex:
        for j, r in zip(order, ex.map(go, order)):
            results[j.name] = r

    # ---- classify
    findings = [f for f in load_findings() if f['property'] == pid]
    exp_path = os.path.join(VERIF, 'expected', '%s.json' % pid)
    expected = json.load(open(exp_path)) if os.path.exists(exp_path) else {}
    new_expected = dict(expected)
    violations = []  # (job, obligation)
    known_hits = []
    proof_total = proof_ok = bnd_total = bnd_ok = 0
    samples = []
    backends = []
    need_fallback = []
    for j in jobs:
        r = results[j.name]
        backends.append({'job': j.name, 'solver': j.solver, 'kind': j.kind, 'seconds': r.get('seconds'),
                         'status': r['status'], 'obligations': len(r['obligations'])})
        if r['status'] != 'done':
            if r.get('reason') == 'staging failed' and j.fallback is not None:
                need_fallback.append((j, 'staging mismatch'))
            else:
                undecided.append('%s: %s %s' % (j.name, r['status'], r.get('reason', '')[:400]))
            continue
        obs = r['obligations']
        inv = {}
        for o in obs:
            inv[o['cat']] = inv.get(o['cat'], 0) + 1
        new_expected['%s@%s' % (j.name, tier)] = {k: inv.get(k, 0) for k in CAT_TRACKED if inv.get(k, 0)}
        if not obs:
            undecided.append('%s: zero obligations (vacuous)' % j.name)
            continue
        exp = expected.get('%s@%s' % (j.name, tier))
        if exp is None and not update_expected:
            undecided.append('%s: no committed obligation inventory' % j.name)
        elif exp is not None and not update_expected:
            for k, v in exp.items():
                if inv.get(k, 0) < v:
                    undecided.append('%s: inventory shrank: %s %d < %d' % (j.name, k, inv.get(k, 0), v))
        for w in r['warnings']:
            if re.search(r'ignoring|no candidates', w) and not getattr(j, 'allow_warn', None):
                ok_models = getattr(mod, 'ALLOWED_WARNINGS', [])
                if not any(re.search(a, w) for a in ok_models):
                    undecided.append('%s: tool warning: %s' % (j.name, w))
        # FAILURE = refuted by the solver.  UNKNOWN/ERROR = CBMC did not decide the obligation
        # (it reports UNKNOWN for obligations downstream of a refuted one); never a violation.
        a_fail = [o for o in obs if o['class'] == 'A' and o['status'] == 'FAILURE']
        p_fail = [o for o in obs if o['class'] == 'P' and o['status'] == 'FAILURE']
        if not a_fail and not p_fail:
            und = [o for o in obs if o['class'] != 'reach' and o['status'] != 'SUCCESS']
            if und:
                undecided.append('%s: %d obligations not decided by the solver (%s ...: %s)'
                                 % (j.name, len(und), und[0]['id'], und[0]['status']))
        reach_bad = [o for o in obs if o['class'] == 'reach' and o['status'] == 'SUCCESS']
        nreach = len([o for o in obs if o['class'] == 'reach'])
        if j.expect_reach is not None and nreach < j.expect_reach:
            undecided.append('%s: %d reachability canaries, expected %d' % (j.name, nreach, j.expect_reach))
        for o in reach_bad:
            # strict jobs: every canary must be reachable.  Non-strict jobs (one harness body shared by many
            # constant-specialised entry points): only the canaries marked 'end' are mandatory.
            if getattr(j, 'strict_reach', True) or 'VP_REACH: end' in o['desc']:
                undecided.append('%s: reachability canary unreachable (vacuous): %s' % (j.name, o['desc']))
        if nreach and len(reach_bad) == nreach:
            undecided.append('%s: no reachability canary is reachable (vacuous)' % j.name)
        real = [o for o in obs if o['class'] != 'reach']
        nok = len([o for o in real if o['status'] == 'SUCCESS'])
        if j.kind == 'proof':
            proof_total += len(real)
            proof_ok += nok
        else:
            bnd_total += len(real)
            bnd_ok += nok
        for o in real[:2] + [o for o in real if o['cat'] == 'postcondition'][:2]:
            if len(samples) < 40:
                samples.append({'job': j.name, 'obligation': o['id'], 'desc': o['desc'][:140], 'status': o['status'],
                                'at': o['loc']})
        if a_fail:
            need_fallback.append((j, 'proof scaffolding failed (%s)%s' % (
                ', '.join(o['id'] for o in a_fail[:4]),
                '; property obligations also fail: ' + ', '.join(o['id'] for o in p_fail[:3]) if p_fail else '')))
        elif p_fail:
            for o in p_fail:
                violations.append((j, o, r))

    # ---- bounded fallback: the proof scaffolding does not fit the code any more (loop count
    # changed, invariant broken).  That is not a violation.  Search for a concrete counterexample
    # with the same harness, no loop contracts, small structural bound; report only what is found.
    def run_fb(item):
        j, why = item
        if j.fallback is None:
            return j, why, None, None
        bj = j.fallback
        try:
            st2, _ = S.stage(os.path.join(VERIF, bj.harness), bj.defines,
                             [os.path.join(VERIF, a) for a in bj.anns], work, bj.ops, bj.incdirs)
        except S.StageError as e:
            return j, why, bj, {'status': 'error', 'reason': 'fallback staging: %s' % e, 'obligations': []}
        return j, why, bj, R.run_job(bj, st2, work, log)

    if need_fallback:
        with ThreadPoolExecutor(max_workers=nworkers) as ex:
            for j, why, bj, r2 in ex.map(run_fb, need_fallback):
                if bj is None:
                    undecided.append('%s: %s; no bounded fallback' % (j.name, why))
                    continue
                results[bj.name] = r2
                backends.append({'job': bj.name, 'solver': bj.solver, 'kind': 'bounded-fallback',
                                 'seconds': r2.get('seconds'), 'status': r2['status'],
                                 'obligations': len(r2['obligations'])})
                if r2['status'] != 'done':
                    undecided.append('%s: %s; fallback %s %s' % (j.name, why, r2['status'], r2.get('reason', '')[:200]))
                    continue
                pf2 = [o for o in r2['obligations'] if o['class'] == 'P' and o['status'] == 'FAILURE']
                if pf2:
                    for o in pf2:
                        violations.append((bj, o, r2))
                else:
                    undecided.append('%s: %s; bounded search (%s) found no counterexample' % (j.name, why, bj.bound))

    # ---- violations -> known findings / replay files
    out_lines = []
    real_violations = []
    rep_dir = os.path.join(VERIF, 'replays')
    os.makedirs(rep_dir, exist_ok=True)
    matched_findings = set()
    kf_proof = kf_bounded = 0
    for (j, o, r) in violations:
        hit = None
        for i, f in enumerate(findings):
            if f['job'] == j.name and f['match'] in (o['desc'] + ' ' + o['id']):
                hit = i
                break
        if hit is not None:
            matched_findings.add(hit)
            known_hits.append((j.name, o['id']))
            if j.kind == 'proof':
                kf_proof += 1
            else:
                kf_bounded += 1
            continue
        real_violations.append((j, o, r))
    for i in sorted(matched_findings):
        out_lines.append('KNOWN-FINDING: property=%s %s' % (pid, findings[i]['text']))
    # obligations that fail only because of a listed known finding are reported separately, not as
    # undischarged proof obligations
    # group per job: one replay per (job, first failing obligation)
    seen_jobs = {}
    for (j, o, r) in real_violations:
        seen_jobs.setdefault(j.name, []).append((j, o, r))
    for jn, lst in seen_jobs.items():
        j, o, r = lst[0]
        safe = re.sub(r'[^A-Za-z0-9_.-]', '_', '%s-%s-%s' % (pid, jn, o['id']))[:150]
        path = os.path.join(rep_dir, safe + '.json')
        inputs, order, raw = ({}, [], '')
        if 'gb' in r:
            try:
                inputs, order, raw = R.trace_for(j, r['gb'], o['id'], work, log, timeout=min(j.timeout, 300))
            except Exception as e:
                raw = 'trace extraction failed: %s' % e
        rec = {'property': pid, 'job': jn, 'failed_obligation': o['id'], 'description': o['desc'],
               'location': o['loc'], 'all_failed_obligations': [x[1]['id'] + ' :: ' + x[1]['desc'][:120] for x in lst],
               'cbmc_cmd': r.get('cmd'), 'inputs': inputs, 'verifier_output': raw, 'native_replay': None}
        suffix = ' no-failing-input-found'
        rp = getattr(mod, 'native_replay', None)
        if rp and inputs:
            try:
                nr = rp(j, o, inputs, work)
                rec['native_replay'] = nr
                if nr and nr.get('confirmed'):
                    suffix = ''
            except Exception as e:
                rec['native_replay'] = {'error': str(e)}
        if suffix and getattr(j, '_shared_entry', False) and staged_of.get(j.name):
            # generic native replay: the staged text itself, compiled with gcc, fed with the trace's nondet values
            try:
                from . import replay as RP
                seq = RP.nondet_sequence(getattr(R.trace_for, 'last_trace', []) or [])
                nr = RP.replay(staged_of[j.name], j.entry, o['desc'], seq, work, safe[:60])
                rec['native_replay'] = nr
                if nr.get('confirmed'):
                    suffix = ''
                if nr.get('source') and os.path.exists(nr['source']):
                    keep = os.path.join(rep_dir, safe + '.native.c')
                    shutil.copy(nr['source'], keep)
                    stubs = nr['source'][:-2] + '_stubs.c'
                    if os.path.exists(stubs):
                        shutil.copy(stubs, keep[:-2] + '_stubs.c')
                    nr['source'] = keep
                    nr['rerun'] = 'gcc -O0 -w -fno-builtin %s%s -o /tmp/replay.bin -lm -ldl -lpthread && /tmp/replay.bin  # exit 1 = obligation violated natively' % (
                        keep, (' ' + keep[:-2] + '_stubs.c') if os.path.exists(stubs) else '')
            except Exception as e:
                rec['native_replay'] = {'confirmed': False, 'reason': 'replay machinery failed: %s' % e}
        json.dump(rec, open(path, 'w'), indent=1)
        out_lines.append('VIOLATION property=%s replay=%s job=%s obligation=%s (%s)%s'
                         % (pid, path, jn, o['id'], o['desc'][:100].replace('\n', ' '), suffix))

    # ---- evidence
    if update_expected:
        os.makedirs(os.path.dirname(exp_path), exist_ok=True)
        json.dump(new_expected, open(exp_path, 'w'), indent=1, sort_keys=True)
    vfiles = set()
    for f in raw_files:
        vfiles.update(included_verif_files(f))
    for j in jobs:
        vfiles.add(os.path.join(VERIF, j.harness))
    meta = getattr(mod, 'META', {})
    level = getattr(mod, 'LEVEL', 'proof')
    dropped = []
    for (st, rep) in stage_reports.values():
        for x in rep.get('ops', []):
            if x not in dropped:
                dropped.append(x)
    dropped += meta.get('dropped_by_staging', [])
    # functions of /repo this run generated obligations in, and those a contract/harness-contract is stated for
    repo_prefix = S.REPO.rstrip('/') + '/'
    fn_obl = {}
    for j in jobs:
        for o in results[j.name]['obligations']:
            if o['loc'].startswith(repo_prefix) and o.get('func'):
                fn_obl[o['func']] = fn_obl.get(o['func'], 0) + 1
    fn_contract = set(meta.get('functions', []))
    for j in jobs:
        for f in ([j.enforce] if j.enforce else []) + list(j.enforce_more or []):
            fn_contract.add(f)
        for f in (j.count_funcs or []):
            if f in fn_obl or not re.match(r'(vp_|h_|run_|mem|str|malloc|free|calloc|realloc)', f):
                fn_contract.add(f)
    cov = {
        'obligations': proof_total - kf_proof, 'discharged': proof_ok, 'known_finding_obligations': kf_proof + kf_bounded,
        'bounded_obligations': bnd_total - kf_bounded, 'bounded_discharged': bnd_ok,
        'bounds': sorted(set('%s: %s' % (j.name, j.bound) for j in jobs if j.kind == 'bounded' and j.bound)),
        'checker_cmd': 'goto-cc -E (stage) | goto-cc --function h | goto-instrument --dfcc h --enforce-contract f '
                       '[--replace-call-with-contract g] [--apply-loop-contracts] | cbmc --bounds-check --pointer-check '
                       '--pointer-overflow-check [--unwind K --unwinding-assertions] [--z3|--cvc5]; e.g.: '
                       + next((results[j.name].get('cmd', '') for j in jobs if results[j.name].get('cmd')), ''),
        'trusted_base': meta.get('trusted_base', []) + [
            'cbmc/goto-cc/goto-instrument 6.11.0 and the back end named per job',
            'goto-cc C semantics for x86-64 LP64 little endian; machine integers are bit-vectors (no mathematical idealisation)',
            'the stager (vp/stage.py): tokenizer + loop-contract injection, self-checked against plain goto-cc -E output each run'],
        'functions_under_contract': sorted(fn_contract),
        'repo_functions_with_obligations': dict(sorted(fn_obl.items())),
        'backends': backends,
        'samples': samples[:40],
        'dropped_by_staging': dropped,
        'undecided_part': meta.get('undecided_part', '') or manifest_claim(pid),
        'known_findings_matched': ['%s/%s' % k for k in known_hits],
        'undecided_reasons': undecided,
        'explanation': meta.get('explanation', ''),
        'evaluations': proof_total + bnd_total,
        'distinct_nontrivial': len(set(o['id'] for j in jobs for o in results[j.name]['obligations']
                                       if o['class'] == 'P')),
        'rule': 'one evaluation = one CBMC obligation generated from the staged real source; distinct non-trivial = '
                'distinct P-class obligation ids (postconditions, callee preconditions, memory-safety checks, harness '
                'assertions), loop scaffolding and reachability canaries excluded',
        'jobs': len(jobs),
    }
    assumptions = scan_assumptions(sorted(vfiles)) + meta.get('assumptions', [])
    ev = {'property_id': pid, 'tier': tier, 'seed': seed, 'level': level, 'coverage': cov,
          'assumptions': assumptions, 'wall_s': round(time.time() - t0, 1), 'violations': len(seen_jobs)}
    if not only:
        os.makedirs(os.path.join(VERIF, 'evidence'), exist_ok=True)
        json.dump(ev, open(os.path.join(VERIF, 'evidence', '%s.json' % pid), 'w'), indent=1)

    for l in out_lines:
        print(l)
    rc = 0
    if seen_jobs:
        rc = 1
    elif undecided:
        rc = 2
        for u in undecided:
            print('UNDECIDED property=%s %s' % (pid, u))
    print('%s %s: jobs=%d proof-obligations=%d/%d bounded=%d/%d known-findings=%d wall=%.0fs -> exit %d'
          % (pid, tier, len(jobs), proof_ok, proof_total, bnd_ok, bnd_total, len(matched_findings), time.time() - t0, rc))
    if verbose or rc:
        for j in jobs:
            r = results[j.name]
            bad = [o for o in r['obligations'] if (o['status'] != 'SUCCESS') != (o['class'] == 'reach')]
            if bad or r['status'] != 'done':
                print('  job %s [%s] %s' % (j.name, r['status'], r.get('reason', '')[:300]))
                for o in bad[:12]:
                    print('     %s %s %s :: %s @%s' % (o['class'], o['status'], o['id'], o['desc'][:110], o['loc']))
    if not keep and rc == 0:
        shutil.rmtree(work, ignore_errors=True)
    elif not keep:
        # keep logs only
        for f in glob.glob(os.path.join(work, '*.gb')) + glob.glob(os.path.join(work, '*.i')):
            try:
                os.remove(f)
            except OSError:
                pass
    return rc


def main(argv):
    import argparse
    ap = argparse.ArgumentParser()
    ap.add_argument('id')
    ap.add_argument('--tier', default=os.environ.get('VERIF_TIER', 'quick'))
    ap.add_argument('--update-expected', action='store_true')
    ap.add_argument('--only')
    ap.add_argument('--keep', action='store_true')
    ap.add_argument('-v', action='store_true')
    a = ap.parse_args(argv)
    sys.path.insert(0, VERIF)
    mod = importlib.import_module('checks.%s' % a.id.lower())
    if hasattr(mod, 'main'):
        return mod.main(a.tier)
    return run_check(mod, a.tier, a.update_expected, a.only, a.keep, a.v)
