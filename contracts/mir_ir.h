#ifndef VP_CONTRACTS_MIR_IR_H
#define VP_CONTRACTS_MIR_IR_H
/* a type is acceptable for data elements, results and non-call memory operands iff it is one of the
   documented scalar types; block types (MIR_T_BLK .. MIR_T_RBLK), MIR_T_UNDEF, MIR_T_BOUND are not */
static int wrong_type_p (MIR_type_t type)
__CPROVER_assigns ()
__CPROVER_ensures ((__CPROVER_return_value != 0) == !spec_scalar_type_p (type));
#endif
