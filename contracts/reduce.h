/* Contracts for the decoder side of mir-reduce.h (on redeclarations after the definitions). */
#ifndef VP_CONTRACTS_REDUCE_H
#define VP_CONTRACTS_REDUCE_H

/* the check hash is opaque here: any value; it must only be asked over readable memory */
static inline uint64_t mir_hash_strict (const void *key, size_t len, uint64_t seed)
__CPROVER_requires (len == 0 || __CPROVER_r_ok (key, len))
__CPROVER_assigns ()
__CPROVER_ensures (1);

/* ghost record of the hash comparison: the decoder may declare end-of-stream only after it has read
   the stored check hash (this call) and found it equal to the hash of what it decoded */
static inline uint64_t _reduce_str2hash (const uint8_t *s)
__CPROVER_requires (__CPROVER_r_ok (s, 8))
__CPROVER_assigns (vp_last_str2hash, vp_str2hash_calls)
__CPROVER_ensures (__CPROVER_return_value == vp_last_str2hash && vp_str2hash_calls == __CPROVER_old (vp_str2hash_calls) + 1);

#define RD_DEC_WF(d)                                                                           \
  (__CPROVER_is_fresh (d, sizeof (struct reduce_data)) && (d)->u.decode.reader == vp_reader    \
   && (d)->u.decode.buf_get_pos <= (d)->buf_bound && (d)->buf_bound <= _REDUCE_BUF_LEN         \
   && ((d)->ok_p == 0 || (d)->ok_p == 1) && ((d)->u.decode.eof_p == 0 || (d)->u.decode.eof_p == 1))

/* "never reads or writes outside the decoder's own buffers" = CBMC's pointer/bounds obligations plus
   the reader/memcpy/hash model preconditions inside the function.  "a refused stream is reported":
   -1 without end-of-stream leaves ok_p == 0, which reduce_decode_finish turns into failure. */
static inline int reduce_decode_get (struct reduce_data *data)
__CPROVER_requires (RD_DEC_WF (data))
__CPROVER_assigns (__CPROVER_object_whole (data), vp_last_str2hash, vp_str2hash_calls)
__CPROVER_ensures (__CPROVER_return_value >= -1 && __CPROVER_return_value <= 255)
__CPROVER_ensures (data->u.decode.buf_get_pos <= data->buf_bound && data->buf_bound <= _REDUCE_BUF_LEN)
__CPROVER_ensures (data->u.decode.reader == vp_reader)
__CPROVER_ensures (__CPROVER_return_value == -1 && !data->u.decode.eof_p ==> data->ok_p == 0)
__CPROVER_ensures (__CPROVER_return_value >= 0 ==> data->u.decode.buf_get_pos >= 1)
__CPROVER_ensures (__CPROVER_old (data->ok_p) == 0 ==> data->ok_p == 0)
/* "never trusts a damaged stream": end of stream is declared only after the stored hash was read and
   equals the hash of the decoded data */
__CPROVER_ensures (data->u.decode.eof_p && !__CPROVER_old (data->u.decode.eof_p)
                   ==> (vp_str2hash_calls == __CPROVER_old (vp_str2hash_calls) + 1 && data->check_hash == vp_last_str2hash));

/* malformed numbers are failures (-1), never aborts; values fit 28 bits */
static inline int64_t _reduce_uint_read (reduce_reader_t reader, void *aux_data)
__CPROVER_requires (reader == vp_reader)
__CPROVER_assigns ()
__CPROVER_ensures (__CPROVER_return_value >= -1 && __CPROVER_return_value < ((int64_t) 1 << 28));

static inline int reduce_decode_finish (MIR_alloc_t alloc, struct reduce_data *data)
__CPROVER_requires (VP_ALLOC_OK (alloc) && RD_DEC_WF (data))
__CPROVER_assigns () __CPROVER_frees (data)
__CPROVER_ensures (__CPROVER_return_value != 0 ==> (__CPROVER_old (data->ok_p) != 0 && __CPROVER_old (data->u.decode.eof_p) != 0))
__CPROVER_ensures (__CPROVER_was_freed (__CPROVER_old (data)));

/* encoder side: the literal run never exceeds its buffer (and the decoder's limit _REDUCE_MAX_SYMB_LEN) */
#define RD_ENC_WF(d)                                                                           \
  (__CPROVER_is_fresh (d, sizeof (struct reduce_data)) && (d)->u.encode.writer == vp_writer    \
   && (d)->u.encode.curr_symb_len <= _REDUCE_MAX_SYMB_LEN && (d)->buf_bound <= _REDUCE_BUF_LEN)
static inline void _reduce_output_byte (struct reduce_data *data, uint32_t pos)
__CPROVER_requires (RD_ENC_WF (data) && pos < data->buf_bound)
__CPROVER_assigns (__CPROVER_object_whole (data))
__CPROVER_ensures (data->u.encode.curr_symb_len >= 1 && data->u.encode.curr_symb_len <= _REDUCE_MAX_SYMB_LEN)
__CPROVER_ensures (data->u.encode.curr_symb[data->u.encode.curr_symb_len - 1] == __CPROVER_old (data->buf[pos]));

static inline int _reduce_symb_flush (struct reduce_data *data, int ref_tag)
__CPROVER_requires (RD_ENC_WF (data) && ref_tag >= 0 && ref_tag <= _REDUCE_REF_TAG_LONG)
__CPROVER_assigns (__CPROVER_object_whole (data))
__CPROVER_ensures (data->u.encode.curr_symb_len == 0 || (__CPROVER_return_value == 0 && data->u.encode.curr_symb_len == __CPROVER_old (data->u.encode.curr_symb_len)));
#endif
