/* x86-64 psABI 3.5.7 (the va_arg algorithm) as contracts.
   va_list state: gp_offset in {0,8,..,48}, fp_offset in {48,64,..,176}, reg_save_area 176 bytes
   (6 GP registers at 0..47, 8 SSE registers at 48..175, 16 bytes each), overflow_arg_area 8-aligned.
   A value needing n_gp general and n_fp SSE registers is taken from the save area iff
   gp_offset + 8*n_gp <= 48 and fp_offset + 16*n_fp <= 176; then gp_offset += 8*n_gp and
   fp_offset += 16*n_fp.  Otherwise it is taken from overflow_arg_area, which advances by the size
   rounded up to 8. */
#ifndef VP_CONTRACTS_VA_H
#define VP_CONTRACTS_VA_H
#define VA(p) ((struct x86_64_va_list *) (p))
#define VA_WF(p)                                                                               \
  (__CPROVER_is_fresh (p, sizeof (struct x86_64_va_list)) && VA (p)->gp_offset <= 48           \
   && VA (p)->gp_offset % 8 == 0 && VA (p)->fp_offset >= 48 && VA (p)->fp_offset <= 176        \
   && VA (p)->fp_offset % 16 == 0 && __CPROVER_is_fresh (VA (p)->reg_save_area, 176)           \
   && __CPROVER_is_fresh (VA (p)->overflow_arg_area, 64))
#define OLDVA(p, f) __CPROVER_old (VA (p)->f)

void *va_arg_builtin (void *p, uint64_t t)
__CPROVER_requires (VA_WF (p))
__CPROVER_requires (t == MIR_T_I8 || t == MIR_T_U8 || t == MIR_T_I16 || t == MIR_T_U16 || t == MIR_T_I32 || t == MIR_T_U32
                    || t == MIR_T_I64 || t == MIR_T_U64 || t == MIR_T_P || t == MIR_T_F || t == MIR_T_D || t == MIR_T_LD)
__CPROVER_assigns (VA (p)->gp_offset, VA (p)->fp_offset, VA (p)->overflow_arg_area)
/* SSE class (float/double): one SSE register */
__CPROVER_ensures ((t == MIR_T_F || t == MIR_T_D) && OLDVA (p, fp_offset) + 16 <= 176
                   ==> (__CPROVER_return_value == (char *) VA (p)->reg_save_area + OLDVA (p, fp_offset)
                        && VA (p)->fp_offset == OLDVA (p, fp_offset) + 16 && VA (p)->gp_offset == OLDVA (p, gp_offset)
                        && VA (p)->overflow_arg_area == OLDVA (p, overflow_arg_area)))
/* INTEGER class: one general register */
__CPROVER_ensures (t != MIR_T_F && t != MIR_T_D && t != MIR_T_LD && OLDVA (p, gp_offset) + 8 <= 48
                   ==> (__CPROVER_return_value == (char *) VA (p)->reg_save_area + OLDVA (p, gp_offset)
                        && VA (p)->gp_offset == OLDVA (p, gp_offset) + 8 && VA (p)->fp_offset == OLDVA (p, fp_offset)
                        && VA (p)->overflow_arg_area == OLDVA (p, overflow_arg_area)))
/* memory: registers exhausted, or long double (X87 class is always passed in memory) */
__CPROVER_ensures (((t == MIR_T_F || t == MIR_T_D) && OLDVA (p, fp_offset) + 16 > 176)
                   || (t != MIR_T_F && t != MIR_T_D && t != MIR_T_LD && OLDVA (p, gp_offset) + 8 > 48) || t == MIR_T_LD
                   ==> (__CPROVER_return_value == OLDVA (p, overflow_arg_area)
                        && (char *) VA (p)->overflow_arg_area == (char *) OLDVA (p, overflow_arg_area) + (t == MIR_T_LD ? 16 : 8)
                        && VA (p)->gp_offset == OLDVA (p, gp_offset) && VA (p)->fp_offset == OLDVA (p, fp_offset)));

/* block of s bytes (1..16); ncase: 0 memory, 1 INTEGER eightbytes, 2 SSE eightbytes, 3 INTEGER+SSE, 4 SSE+INTEGER */
#define VB_NEB(s) (((s) + 7) / 8) /* eightbytes */
#define VB_NGP(s, n) ((n) == 1 ? VB_NEB (s) : ((n) == 3 || (n) == 4) ? 1 : 0)
#define VB_NFP(s, n) ((n) == 2 ? VB_NEB (s) : ((n) == 3 || (n) == 4) ? 1 : 0)
#define VB_INREGS(p, s, n)                                                                     \
  ((n) != 0 && OLDVA (p, gp_offset) + 8 * VB_NGP (s, n) <= 48 && OLDVA (p, fp_offset) + 16 * VB_NFP (s, n) <= 176)
/* save-area offset of eightbyte e (0/1) of the block */
#define VB_SRC(p, s, n, e)                                                                     \
  ((n) == 1 ? OLDVA (p, gp_offset) + 8 * (e)                                                   \
   : (n) == 2 ? OLDVA (p, fp_offset) + 16 * (e)                                                \
   : (n) == 3 ? ((e) == 0 ? OLDVA (p, gp_offset) : OLDVA (p, fp_offset))                       \
              : ((e) == 0 ? OLDVA (p, fp_offset) : OLDVA (p, gp_offset)))
void va_block_arg_builtin (void *res, void *p, size_t s, uint64_t ncase)
__CPROVER_requires (VA_WF (p) && s >= 1 && s <= 16 && ncase <= 4 && (ncase < 3 || s > 8))
__CPROVER_requires (res == NULL || __CPROVER_is_fresh (res, s))
__CPROVER_assigns (VA (p)->gp_offset, VA (p)->fp_offset, VA (p)->overflow_arg_area; res != NULL: __CPROVER_object_whole (res))
__CPROVER_ensures (VB_INREGS (p, s, ncase)
                   ==> (VA (p)->gp_offset == OLDVA (p, gp_offset) + 8 * VB_NGP (s, ncase)
                        && VA (p)->fp_offset == OLDVA (p, fp_offset) + 16 * VB_NFP (s, ncase)
                        && VA (p)->overflow_arg_area == OLDVA (p, overflow_arg_area)))
__CPROVER_ensures (!VB_INREGS (p, s, ncase)
                   ==> (VA (p)->gp_offset == OLDVA (p, gp_offset) && VA (p)->fp_offset == OLDVA (p, fp_offset)
                        && (char *) VA (p)->overflow_arg_area == (char *) OLDVA (p, overflow_arg_area) + 8 * VB_NEB (s)))
/* contents, at ghost byte vp_G < s */
__CPROVER_ensures (res != NULL && vp_G < s && VB_INREGS (p, s, ncase)
                   ==> ((uint8_t *) res)[vp_G]
                         == __CPROVER_old (((uint8_t *) VA (p)->reg_save_area)[(VB_SRC (p, s, ncase, (vp_G & 15) / 8) + (vp_G & 7)) % 176]))
__CPROVER_ensures (res != NULL && vp_G < s && !VB_INREGS (p, s, ncase)
                   ==> ((uint8_t *) res)[vp_G] == __CPROVER_old (((uint8_t *) VA (p)->overflow_arg_area)[vp_G & 15]));
#endif
