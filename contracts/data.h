#ifndef VP_CONTRACTS_DATA_H
#define VP_CONTRACTS_DATA_H
/* MIR.md data types: i8/u8 1 byte, i16/u16 2, i32/u32/f 4, i64/u64/d/p 8, ld 16 (x86-64) */
size_t _MIR_type_size (MIR_context_t ctx, MIR_type_t type)
__CPROVER_requires (type >= MIR_T_I8 && type <= MIR_T_P)
__CPROVER_assigns ()
__CPROVER_ensures (__CPROVER_return_value == ((type == MIR_T_I8 || type == MIR_T_U8) ? 1 : (type == MIR_T_I16 || type == MIR_T_U16) ? 2
                   : (type == MIR_T_I32 || type == MIR_T_U32 || type == MIR_T_F) ? 4 : type == MIR_T_LD ? 16 : 8));
#endif
