/* Contracts for the DEF_VARR(vp_el_t) instantiation of mir-varr.h (the text is shared by all
   instantiations; the harness is compiled for element sizes 1, 8 and 16).
   View of a VARR: (els_num, element vp_G).  Representation invariant VA_WF: the element array
   is a heap block of exactly size*sizeof(T) bytes - the size later reported to realloc. */
#ifndef VP_CONTRACTS_VARR_H
#define VP_CONTRACTS_VARR_H
#define VA_MAX ((size_t) 1 << 24)
#define VA_T VARR (vp_el_t)
#define VA_WF(v)                                                                               \
  (__CPROVER_is_fresh (v, sizeof (*(v))) && (v)->size >= 1 && (v)->size <= VA_MAX              \
   && (v)->els_num <= (v)->size && VP_ALLOC_OK ((v)->alloc)                                    \
   && __CPROVER_is_fresh ((v)->varr, (v)->size * sizeof (vp_el_t)))
#define VA_WF_POST(v)                                                                          \
  ((v)->els_num <= (v)->size && (v)->size >= 1 && (v)->alloc == __CPROVER_old ((v)->alloc)     \
   && __CPROVER_POINTER_OFFSET ((v)->varr) == 0 && __CPROVER_DYNAMIC_OBJECT ((v)->varr)        \
   && __CPROVER_OBJECT_SIZE ((v)->varr) == (v)->size * sizeof (vp_el_t))
#define VA_MASK(c) (-(size_t) (c))
/* element g if g < bound else element 0 (always readable: size >= 1) */
#define VA_AT(v, g, bound) ((v)->varr[(g) &VA_MASK ((g) < (bound))])
#define VA_OLD_AT(v, g, bound) __CPROVER_old ((v)->varr[(g) &VA_MASK ((g) < (bound))])
#define VA_EQ(a, b) vp_el_eq (a, b)
#define VA_ASSIGNS(v)                                                                          \
  __CPROVER_assigns ((v)->els_num, (v)->size, (v)->varr, __CPROVER_object_whole ((v)->varr))   \
  __CPROVER_frees ((v)->varr)

static inline size_t VARR_OP (vp_el_t, length) (const VA_T *varr)
__CPROVER_requires (VA_WF (varr)) __CPROVER_assigns ()
__CPROVER_ensures (__CPROVER_return_value == varr->els_num);

static inline size_t VARR_OP (vp_el_t, capacity) (const VA_T *varr)
__CPROVER_requires (VA_WF (varr)) __CPROVER_assigns ()
__CPROVER_ensures (__CPROVER_return_value == varr->size);

static inline vp_el_t *VARR_OP (vp_el_t, addr) (const VA_T *varr)
__CPROVER_requires (VA_WF (varr)) __CPROVER_assigns ()
__CPROVER_ensures (__CPROVER_return_value == varr->varr);

static inline vp_el_t VARR_OP (vp_el_t, get) (const VA_T *varr, size_t ix)
__CPROVER_requires (VA_WF (varr) && ix < varr->els_num) __CPROVER_assigns ()
__CPROVER_ensures (VA_EQ (__CPROVER_return_value, varr->varr[ix]));

static inline vp_el_t VARR_OP (vp_el_t, last) (const VA_T *varr)
__CPROVER_requires (VA_WF (varr) && varr->els_num >= 1) __CPROVER_assigns ()
__CPROVER_ensures (VA_EQ (__CPROVER_return_value, varr->varr[varr->els_num - 1]));

static inline void VARR_OP (vp_el_t, set) (const VA_T *varr, size_t ix, vp_el_t obj)
__CPROVER_requires (VA_WF (varr) && ix < varr->els_num)
__CPROVER_assigns (varr->varr[ix])
__CPROVER_ensures (VA_EQ (varr->varr[ix], obj));

static inline void VARR_OP (vp_el_t, trunc) (VA_T *varr, size_t size)
__CPROVER_requires (VA_WF (varr) && size <= varr->els_num)
__CPROVER_assigns (varr->els_num)
__CPROVER_ensures (varr->els_num == size);

static inline vp_el_t VARR_OP (vp_el_t, pop) (VA_T *varr)
__CPROVER_requires (VA_WF (varr) && varr->els_num >= 1)
__CPROVER_assigns (varr->els_num)
__CPROVER_ensures (varr->els_num == __CPROVER_old (varr->els_num) - 1)
__CPROVER_ensures (VA_EQ (__CPROVER_return_value, varr->varr[varr->els_num]));

static inline int VARR_OP (vp_el_t, expand) (VA_T *varr, size_t size)
__CPROVER_requires (VA_WF (varr) && size <= VA_MAX)
VA_ASSIGNS (varr)
__CPROVER_ensures (VA_WF_POST (varr) && varr->size >= size && varr->size >= __CPROVER_old (varr->size))
__CPROVER_ensures (varr->els_num == __CPROVER_old (varr->els_num))
__CPROVER_ensures (__CPROVER_return_value == (__CPROVER_old (varr->size) < size))
__CPROVER_ensures (__CPROVER_return_value == 0 ==> (varr->varr == __CPROVER_old (varr->varr) && varr->size == __CPROVER_old (varr->size)))
__CPROVER_ensures (__CPROVER_return_value != 0 ==> varr->size == size + size / 2)
__CPROVER_ensures (vp_G < __CPROVER_old (varr->size) ==> VA_EQ (varr->varr[vp_G], VA_OLD_AT (varr, vp_G, varr->size)));

static inline void VARR_OP (vp_el_t, tailor) (VA_T *varr, size_t size)
__CPROVER_requires (VA_WF (varr) && size >= 1 && size <= VA_MAX)
VA_ASSIGNS (varr)
__CPROVER_ensures (VA_WF_POST (varr) && varr->size == size && varr->els_num == size)
__CPROVER_ensures (vp_G < size && vp_G < __CPROVER_old (varr->size) ==> VA_EQ (varr->varr[vp_G], VA_OLD_AT (varr, vp_G, varr->size)));

static inline void VARR_OP (vp_el_t, push) (VA_T *varr, vp_el_t obj)
__CPROVER_requires (VA_WF (varr) && varr->els_num < VA_MAX)
VA_ASSIGNS (varr)
__CPROVER_ensures (VA_WF_POST (varr) && varr->els_num == __CPROVER_old (varr->els_num) + 1)
__CPROVER_ensures (vp_G == varr->els_num - 1 ==> VA_EQ (varr->varr[vp_G], obj))
__CPROVER_ensures (vp_G < __CPROVER_old (varr->els_num) ==> VA_EQ (varr->varr[vp_G], VA_OLD_AT (varr, vp_G, varr->els_num)));

static inline void VARR_OP (vp_el_t, push_arr) (VA_T *varr, const vp_el_t *objs, size_t len)
__CPROVER_requires (VA_WF (varr) && len >= 1 && len <= VA_MAX && varr->els_num <= VA_MAX
                    && __CPROVER_is_fresh (objs, len * sizeof (vp_el_t)))
VA_ASSIGNS (varr)
__CPROVER_ensures (VA_WF_POST (varr) && varr->els_num == __CPROVER_old (varr->els_num) + len)
__CPROVER_ensures (vp_G < __CPROVER_old (varr->els_num) ==> VA_EQ (varr->varr[vp_G], VA_OLD_AT (varr, vp_G, varr->els_num)))
__CPROVER_ensures (vp_G < len ==> VA_EQ (varr->varr[__CPROVER_old (varr->els_num) + vp_G], objs[vp_G]));

static inline void VARR_OP (vp_el_t, create) (VA_T **varr, MIR_alloc_t alloc, size_t size)
__CPROVER_requires (__CPROVER_is_fresh (varr, sizeof (*varr)) && VP_ALLOC_OK (alloc) && size <= VA_MAX)
__CPROVER_assigns (*varr)
__CPROVER_ensures (__CPROVER_is_fresh (*varr, sizeof (VA_T)) && (*varr)->alloc == alloc && (*varr)->els_num == 0
                   && __CPROVER_POINTER_OFFSET ((*varr)->varr) == 0 && __CPROVER_DYNAMIC_OBJECT ((*varr)->varr)
                   && __CPROVER_OBJECT_SIZE ((*varr)->varr) == (*varr)->size * sizeof (vp_el_t)
                   && (*varr)->size == (size == 0 ? VARR_DEFAULT_SIZE : size));

static inline void VARR_OP (vp_el_t, destroy) (VA_T **varr)
__CPROVER_requires (__CPROVER_is_fresh (varr, sizeof (*varr)) && VA_WF (*varr))
__CPROVER_assigns (*varr) __CPROVER_frees (*varr, (*varr)->varr)
__CPROVER_ensures (*varr == NULL && __CPROVER_was_freed (__CPROVER_old (*varr)) && __CPROVER_was_freed (__CPROVER_old ((*varr)->varr)));
#endif
