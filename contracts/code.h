#ifndef VP_CONTRACTS_CODE_H
#define VP_CONTRACTS_CODE_H
/* CUSTOM-ALLOCATORS.md: code memory is written only between MIR_mem_protect (.., PROT_WRITE_EXEC) and the
   following MIR_mem_protect (.., PROT_READ_EXEC).  Precondition (the callers' duty, ghost index vp_G):
   relocation vp_G lies inside the protected region. */
#define SC_SIZE(rs) ((rs) == 0 ? sizeof (void *) : (rs))
void _MIR_set_code (MIR_code_alloc_t code_alloc, size_t prot_start, size_t prot_len, uint8_t *base, size_t nloc,
                    const MIR_code_reloc_t *relocs, size_t reloc_size)
__CPROVER_requires (__CPROVER_is_fresh (code_alloc, sizeof (*code_alloc)) && code_alloc->mem_protect == vp_mem_protect)
__CPROVER_requires (nloc >= 1 && nloc <= 1000 && __CPROVER_is_fresh (relocs, nloc * sizeof (MIR_code_reloc_t)))
__CPROVER_requires (prot_len <= ((size_t) 1 << 40) && prot_start <= ((size_t) 1 << 46) && reloc_size <= ((size_t) 1 << 30))
__CPROVER_requires (!vp_window_open && vp_writes_in_window == 0)
/* all relocations are inside the window (the harness checks the write of relocation vp_G against this) */
__CPROVER_requires (__CPROVER_forall { size_t k; k < nloc ==> ((size_t) base + relocs[k].offset >= prot_start
                    && (size_t) base + relocs[k].offset + SC_SIZE (reloc_size) <= prot_start + prot_len
                    && relocs[k].offset <= ((size_t) 1 << 40)
                    && (reloc_size == 0 || __CPROVER_r_ok (relocs[k].value, reloc_size))) })
__CPROVER_assigns (vp_window_open, vp_win_lo, vp_win_hi, vp_writes_in_window, vp_protect_calls)
__CPROVER_ensures (!vp_window_open && vp_writes_in_window == nloc && vp_protect_calls == __CPROVER_old (vp_protect_calls) + 2);
#endif
