#ifndef VP_CONTRACTS_ABI_H
#define VP_CONTRACTS_ABI_H
#define ABI_CLASS_P(t) (SYSV_INT_P (t) || SYSV_SSE_P (t) || (t) == MIR_T_LD || (t) == MIR_T_UNDEF \
                        || (int) (t) == NO_CLASS || (int) (t) == X87UP_CLASS)
/* psABI 3.2.3 step 4: (a) equal classes -> that class; (b) one is NO_CLASS -> the other; (c) one is
   MEMORY -> MEMORY; (d) one is INTEGER -> INTEGER; (e) one is X87/X87UP -> MEMORY; (f) otherwise SSE */
static MIR_type_t get_result_type (MIR_type_t arg_type1, MIR_type_t arg_type2)
__CPROVER_requires (ABI_CLASS_P (arg_type1) && ABI_CLASS_P (arg_type2))
__CPROVER_assigns ()
__CPROVER_ensures (arg_type1 == arg_type2 ==> __CPROVER_return_value == arg_type1)
__CPROVER_ensures (arg_type1 != arg_type2 && (int) arg_type1 == NO_CLASS ==> __CPROVER_return_value == arg_type2)
__CPROVER_ensures (arg_type1 != arg_type2 && (int) arg_type2 == NO_CLASS ==> __CPROVER_return_value == arg_type1)
__CPROVER_ensures (arg_type1 != arg_type2 && (int) arg_type1 != NO_CLASS && (int) arg_type2 != NO_CLASS
                   && (arg_type1 == MIR_T_UNDEF || arg_type2 == MIR_T_UNDEF) ==> __CPROVER_return_value == MIR_T_UNDEF)
__CPROVER_ensures (arg_type1 != arg_type2 && (int) arg_type1 != NO_CLASS && (int) arg_type2 != NO_CLASS
                   && arg_type1 != MIR_T_UNDEF && arg_type2 != MIR_T_UNDEF && (SYSV_INT_P (arg_type1) || SYSV_INT_P (arg_type2))
                   ==> SYSV_INT_P (__CPROVER_return_value))
__CPROVER_ensures (arg_type1 != arg_type2 && (int) arg_type1 != NO_CLASS && (int) arg_type2 != NO_CLASS
                   && arg_type1 != MIR_T_UNDEF && arg_type2 != MIR_T_UNDEF && !SYSV_INT_P (arg_type1) && !SYSV_INT_P (arg_type2)
                   && (arg_type1 == MIR_T_LD || arg_type2 == MIR_T_LD || (int) arg_type1 == X87UP_CLASS || (int) arg_type2 == X87UP_CLASS)
                   ==> __CPROVER_return_value == MIR_T_UNDEF)
__CPROVER_ensures (SYSV_SSE_P (arg_type1) && SYSV_SSE_P (arg_type2) ==> SYSV_SSE_P (__CPROVER_return_value));
#endif
