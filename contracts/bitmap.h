/* Contracts for mir-bitmap.h, placed on redeclarations after the real definitions.
   Abstract view of a bitmap: the set { 64*g + k : g < length, bit k of word g set };
   BM_W(bm,g) is word g of that view (0 beyond the length).  vp_G is the ghost word index:
   it is never assigned, so a postcondition about word vp_G is one about every word. */
#ifndef VP_CONTRACTS_BITMAP_H
#define VP_CONTRACTS_BITMAP_H

#ifdef VP_SMALL /* bounded fallback only */
#define VP_MAXW ((size_t) 3)
#else
#define VP_MAXW ((size_t) 1 << 24) /* bound on capacities so that size arithmetic cannot wrap */
#endif
#define VP_MAXBITS (VP_MAXW * 16)

#define VP_MASK(c) (-(size_t) (c)) /* all ones if c else 0 */
#define BM_WF(bm)                                                                              \
  (__CPROVER_is_fresh (bm, sizeof (*(bm))) && (bm)->size >= 1 && (bm)->size <= VP_MAXW         \
   && (bm)->els_num <= (bm)->size && VP_ALLOC_OK ((bm)->alloc)                                 \
   && __CPROVER_is_fresh ((bm)->varr, (bm)->size * sizeof (bitmap_el_t)))
/* well-formedness as a postcondition (no freshness): shape only */
#define BM_WF_POST(bm)                                                                         \
  ((bm)->els_num <= (bm)->size && (bm)->size >= 1 && (bm)->alloc == __CPROVER_old ((bm)->alloc) \
   && __CPROVER_POINTER_OFFSET ((bm)->varr) == 0                                               \
   && __CPROVER_OBJECT_SIZE ((bm)->varr) == (bm)->size * sizeof (bitmap_el_t))
#define BM_W(bm, g) ((bm)->varr[(g) &VP_MASK ((g) < (bm)->els_num)] & VP_MASK ((g) < (bm)->els_num))
#define BM_W_OLD(bm, g)                                                              \
  (__CPROVER_old ((bm)->varr[(g) &VP_MASK ((g) < (bm)->els_num)]) & VP_MASK ((g) < __CPROVER_old ((bm)->els_num)))
#define BM_BIT_OLD(bm, nb) ((BM_W_OLD (bm, (nb) / 64) >> ((nb) % 64)) & 1)
#define BM_BIT(bm, nb) ((BM_W (bm, (nb) / 64) >> ((nb) % 64)) & 1)
#define VP_BITW(nb, g) (((bitmap_el_t) 1 << ((nb) % 64)) & VP_MASK ((g) == (nb) / 64))
#define VP_ONES (~(bitmap_el_t) 0)
/* the bits of word g that lie in [nb, nb+len) */
#define VP_RM(nb, len, g)                                                                      \
  (((len) == 0 || (g) >= ((size_t) 1 << 56) || (nb) + (len) <= (g) * 64 || (nb) >= (g) * 64 + 64)                           \
     ? (bitmap_el_t) 0                                                                         \
     : (((nb) > (g) * 64 ? VP_ONES << (((nb) - (g) * 64) & 63) : VP_ONES)                      \
        & ((nb) + (len) < (g) * 64 + 64 ? VP_ONES >> (((g) * 64 + 64 - ((nb) + (len))) & 63) : VP_ONES)))
/* the bits of word g with number >= nb */
#define VP_GE(nb, g) ((g) > (nb) / 64 ? VP_ONES : (g) == (nb) / 64 ? VP_ONES << ((nb) % 64) : (bitmap_el_t) 0)
#define VP_LT(nb, g) (~VP_GE (nb, g))
#define VP_OP2SEL(op, a, b) \
  ((op) == bitmap_el_and ? ((a) & (b)) : (op) == bitmap_el_and_compl ? ((a) & ~(b)) : ((a) | (b)))
#define VP_OP3SEL(op, a, b, c) \
  ((op) == bitmap_el_ior_and ? ((a) | ((b) & (c))) : ((a) | ((b) & ~(c))))

static inline void bitmap_expand (bitmap_t bm, size_t nb)
__CPROVER_requires (BM_WF (bm) && nb <= VP_MAXBITS)
#ifdef VP_EXPAND_BOUND /* bounded stand-in: the loop of pushes is unwound, not closed by an invariant */
__CPROVER_requires ((nb + 63) / 64 <= bm->els_num + VP_EXPAND_BOUND)
#endif
__CPROVER_assigns (bm->els_num, bm->size, bm->varr, __CPROVER_object_whole (bm->varr))
__CPROVER_frees (bm->varr)
__CPROVER_ensures (BM_WF_POST (bm))
__CPROVER_ensures (bm->els_num == ((nb + 63) / 64 > __CPROVER_old (bm->els_num) ? (nb + 63) / 64 : __CPROVER_old (bm->els_num)))
__CPROVER_ensures (bm->size <= 2 * VP_MAXW)
__CPROVER_ensures ((nb + 63) / 64 <= __CPROVER_old (bm->size)
                   ==> (bm->varr == __CPROVER_old (bm->varr) && bm->size == __CPROVER_old (bm->size)))
__CPROVER_ensures (BM_W (bm, vp_G) == BM_W_OLD (bm, vp_G));

static inline int bitmap_bit_p (const_bitmap_t bm, size_t nb)
__CPROVER_requires (BM_WF (bm))
__CPROVER_assigns ()
__CPROVER_ensures (__CPROVER_return_value == (int) BM_BIT (bm, nb));

static inline int bitmap_set_bit_p (bitmap_t bm, size_t nb)
__CPROVER_requires (BM_WF (bm) && nb < VP_MAXBITS)
__CPROVER_assigns (bm->els_num, bm->size, bm->varr, __CPROVER_object_whole (bm->varr))
__CPROVER_frees (bm->varr)
__CPROVER_ensures (BM_WF_POST (bm))
__CPROVER_ensures (BM_W (bm, vp_G) == (BM_W_OLD (bm, vp_G) | VP_BITW (nb, vp_G)))
__CPROVER_ensures (vp_G == nb / 64 ==> __CPROVER_return_value == (int) ! BM_BIT_OLD (bm, nb));

static inline int bitmap_clear_bit_p (bitmap_t bm, size_t nb)
__CPROVER_requires (BM_WF (bm))
__CPROVER_assigns (__CPROVER_object_whole (bm->varr))
__CPROVER_ensures (BM_WF_POST (bm) && bm->els_num == __CPROVER_old (bm->els_num))
__CPROVER_ensures (BM_W (bm, vp_G) == (BM_W_OLD (bm, vp_G) & ~VP_BITW (nb, vp_G)))
__CPROVER_ensures (__CPROVER_return_value == (int) BM_BIT_OLD (bm, nb));

static inline int bitmap_set_or_clear_bit_range_p (bitmap_t bm, size_t nb, size_t len, int set_p)
__CPROVER_requires (BM_WF (bm) && nb < VP_MAXBITS && len < VP_MAXBITS)
__CPROVER_assigns (bm->els_num, bm->size, bm->varr, __CPROVER_object_whole (bm->varr))
__CPROVER_frees (bm->varr)
__CPROVER_ensures (BM_WF_POST (bm))
__CPROVER_ensures (set_p ==> BM_W (bm, vp_G) == (BM_W_OLD (bm, vp_G) | VP_RM (nb, len, vp_G)))
__CPROVER_ensures (!set_p ==> BM_W (bm, vp_G) == (BM_W_OLD (bm, vp_G) & ~VP_RM (nb, len, vp_G)))
__CPROVER_ensures (BM_W (bm, vp_G) != BM_W_OLD (bm, vp_G) ==> __CPROVER_return_value != 0)
__CPROVER_ensures (__CPROVER_return_value == 0 || __CPROVER_return_value == 1);

static inline void bitmap_copy (bitmap_t dst, const_bitmap_t src)
__CPROVER_requires (BM_WF (dst) && BM_WF (src))
__CPROVER_assigns (dst->els_num, dst->size, dst->varr, __CPROVER_object_whole (dst->varr))
__CPROVER_frees (dst->varr)
__CPROVER_ensures (BM_WF_POST (dst) && dst->els_num == src->els_num)
__CPROVER_ensures (BM_W (dst, vp_G) == BM_W (src, vp_G));

static inline int bitmap_equal_p (const_bitmap_t bm1, const_bitmap_t bm2)
__CPROVER_requires (BM_WF (bm1) && BM_WF (bm2))
__CPROVER_assigns ()
__CPROVER_ensures (__CPROVER_return_value != 0 ==> BM_W (bm1, vp_G) == BM_W (bm2, vp_G));

static inline int bitmap_intersect_p (const_bitmap_t bm1, const_bitmap_t bm2)
__CPROVER_requires (BM_WF (bm1) && BM_WF (bm2))
__CPROVER_assigns ()
__CPROVER_ensures (__CPROVER_return_value == 0 ==> (BM_W (bm1, vp_G) & BM_W (bm2, vp_G)) == 0);

static inline int bitmap_empty_p (const_bitmap_t bm)
__CPROVER_requires (BM_WF (bm))
__CPROVER_assigns ()
__CPROVER_ensures (__CPROVER_return_value != 0 ==> BM_W (bm, vp_G) == 0);

/* min: if word vp_G is non-empty the result is a member, and no member of word vp_G is below it */
static inline size_t bitmap_bit_min (const_bitmap_t bm)
__CPROVER_requires (BM_WF (bm))
__CPROVER_assigns ()
__CPROVER_ensures (BM_W (bm, vp_G) != 0 ==> BM_BIT (bm, __CPROVER_return_value) == 1)
__CPROVER_ensures ((BM_W (bm, vp_G) & VP_LT (__CPROVER_return_value, vp_G)) == 0);

static inline size_t bitmap_bit_max (const_bitmap_t bm)
__CPROVER_requires (BM_WF (bm))
__CPROVER_assigns ()
__CPROVER_ensures (BM_W (bm, vp_G) != 0 ==> BM_BIT (bm, __CPROVER_return_value) == 1)
__CPROVER_ensures (BM_W (bm, vp_G) != 0 ==> (BM_W (bm, vp_G) & VP_GE (__CPROVER_return_value, vp_G) & ~VP_BITW (__CPROVER_return_value, vp_G)) == 0);

/* bitmap_op2 / bitmap_op3 family.  CBMC resolves dereferences through value sets, which an
   assumed equality (src1 == dst in a requires clause) does not update, so aliasing between
   arguments cannot be introduced by the precondition.  Each aliasing pattern is therefore a
   one-line wrapper in the harness that passes the same pointer twice to the REAL function;
   the contract below is enforced on the wrapper with the real function inlined into it.
   D is the destination, S1..S3 name the objects the sources alias. */
#define BM_OPN_ENSURES(D, NEWW)                                                                \
  __CPROVER_assigns (D->els_num, D->size, D->varr, __CPROVER_object_whole (D->varr))           \
  __CPROVER_frees (D->varr)                                                                    \
  __CPROVER_ensures (BM_WF_POST (D))                                                           \
  __CPROVER_ensures (BM_W (D, vp_G) == (NEWW))                                                 \
  __CPROVER_ensures (BM_W (D, vp_G) != BM_W_OLD (D, vp_G) ==> __CPROVER_return_value != 0)     \
  __CPROVER_ensures (__CPROVER_return_value == 0 || __CPROVER_return_value == 1)               \
  __CPROVER_ensures (D->els_num == 0 || vp_G != D->els_num - 1 || D->varr[vp_G] != 0)
#define VP_AND(a, b) ((a) & (b))
#define VP_AND_COMPL(a, b) ((a) & ~(b))
#define VP_IOR(a, b) ((a) | (b))
#define VP_IOR_AND(a, b, c) ((a) | ((b) & (c)))
#define VP_IOR_AND_COMPL(a, b, c) ((a) | ((b) & ~(c)))
#define OW(x) BM_W_OLD (x, vp_G)
#define BM_OP2_WRAPPERS(F, E)                                                                  \
  static inline int F##_dab (bitmap_t d, bitmap_t a, bitmap_t b)                               \
    __CPROVER_requires (BM_WF (d) && BM_WF (a) && BM_WF (b)) BM_OPN_ENSURES (d, E (OW (a), OW (b))) \
  { return F (d, a, b); }                                                                      \
  static inline int F##_ddb (bitmap_t d, bitmap_t b)                                           \
    __CPROVER_requires (BM_WF (d) && BM_WF (b)) BM_OPN_ENSURES (d, E (OW (d), OW (b)))         \
  { return F (d, d, b); }                                                                      \
  static inline int F##_dad (bitmap_t d, bitmap_t a)                                           \
    __CPROVER_requires (BM_WF (d) && BM_WF (a)) BM_OPN_ENSURES (d, E (OW (a), OW (d)))         \
  { return F (d, a, d); }                                                                      \
  static inline int F##_ddd (bitmap_t d)                                                       \
    __CPROVER_requires (BM_WF (d)) BM_OPN_ENSURES (d, E (OW (d), OW (d)))                      \
  { return F (d, d, d); }                                                                      \
  static inline int F##_daa (bitmap_t d, bitmap_t a)                                           \
    __CPROVER_requires (BM_WF (d) && BM_WF (a)) BM_OPN_ENSURES (d, E (OW (a), OW (a)))         \
  { return F (d, a, a); }
#define BM_OP3_WRAPPERS(F, E)                                                                  \
  static inline int F##_dabc (bitmap_t d, bitmap_t a, bitmap_t b, bitmap_t c)                  \
    __CPROVER_requires (BM_WF (d) && BM_WF (a) && BM_WF (b) && BM_WF (c))                      \
    BM_OPN_ENSURES (d, E (OW (a), OW (b), OW (c)))                                             \
  { return F (d, a, b, c); }                                                                   \
  static inline int F##_ddbc (bitmap_t d, bitmap_t b, bitmap_t c)                              \
    __CPROVER_requires (BM_WF (d) && BM_WF (b) && BM_WF (c)) BM_OPN_ENSURES (d, E (OW (d), OW (b), OW (c))) \
  { return F (d, d, b, c); }                                                                   \
  static inline int F##_dadc (bitmap_t d, bitmap_t a, bitmap_t c)                              \
    __CPROVER_requires (BM_WF (d) && BM_WF (a) && BM_WF (c)) BM_OPN_ENSURES (d, E (OW (a), OW (d), OW (c))) \
  { return F (d, a, d, c); }                                                                   \
  static inline int F##_dabd (bitmap_t d, bitmap_t a, bitmap_t b)                              \
    __CPROVER_requires (BM_WF (d) && BM_WF (a) && BM_WF (b)) BM_OPN_ENSURES (d, E (OW (a), OW (b), OW (d))) \
  { return F (d, a, b, d); }                                                                   \
  static inline int F##_dddd (bitmap_t d)                                                      \
    __CPROVER_requires (BM_WF (d)) BM_OPN_ENSURES (d, E (OW (d), OW (d), OW (d)))              \
  { return F (d, d, d, d); }

/* iterator: returned bit is a member, >= the old position, no member of word vp_G lies in
   [old position, returned bit), the new position is returned+1; FALSE means no member of
   word vp_G is >= the old position.  So members are visited once each, in increasing order. */
static inline int bitmap_iterator_next (bitmap_iterator_t *iter, size_t *nbit)
__CPROVER_requires (__CPROVER_is_fresh (iter, sizeof (*iter)) && __CPROVER_is_fresh (nbit, sizeof (*nbit))
                    && BM_WF (iter->bitmap) && iter->nbit <= VP_MAXBITS * 8)
__CPROVER_assigns (iter->nbit, *nbit)
__CPROVER_ensures (__CPROVER_return_value == 0 || __CPROVER_return_value == 1)
__CPROVER_ensures (__CPROVER_return_value ==> (BM_BIT (iter->bitmap, *nbit) == 1 && *nbit >= __CPROVER_old (iter->nbit) && iter->nbit == *nbit + 1))
__CPROVER_ensures (__CPROVER_return_value ==> (BM_W (iter->bitmap, vp_G) & VP_GE (__CPROVER_old (iter->nbit), vp_G) & VP_LT (*nbit, vp_G)) == 0)
__CPROVER_ensures (!__CPROVER_return_value ==> (BM_W (iter->bitmap, vp_G) & VP_GE (__CPROVER_old (iter->nbit), vp_G)) == 0);

#endif
